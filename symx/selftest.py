"""Engine self-test, run at the start of every check (about a second).  A failure is a harness error
(exit 2), never a verdict.

1. proxy semantics: SymInt / Bit / SymReal operators agree with Python on pinned random values
   (translation validation of the proxies), incl. floor division and modulo with negative operands;
2. the bit-affine `% 2` -> XOR rewrite and the XOR normal form are proved equivalent to the naive
   encodings by z3 (for all values) on random instances up to 12 terms;
3. csr_shim / SA: the real bs_prod on SA operands with concrete cells equals the real scipy result on
   the matrices of two library codes at random vectors;
4. vacuity guard: three planted mutants of a scratch copy of the real bpauli functions must be found;
5. assignment through a symbolic mask agrees with numpy; class-level containers are restored between paths;
   the MatchStub's model of pymatching's merge strategies agrees with the real engine on a 2x4 matrix."""
from __future__ import annotations

import inspect
import random
import types

import numpy as np
import z3

from .core import Engine, Bit, SymInt, SymReal, z3_xor, bool_term, term_of, HarnessError
from .arrays import as_sa, install, csr_shim, NP


def _proxy_semantics(rng):
    n = 0
    eng = Engine(name='selftest')
    with eng:
        for _ in range(40):
            a, b = rng.randint(-20, 20), rng.randint(-7, 7)
            x, y = eng.integer(eng.fresh_name('x')), eng.integer(eng.fresh_name('y'))
            eng._start_path([])
            eng.assume((x == a) & (y == b))
            cases = [(x + y, a + b), (x - y, a - b), (x * 3, a * 3), (x * y, a * b), (x % 5, a % 5), (x // 3, a // 3),
                     (-x, -a), (abs(x), abs(a))]
            if b != 0:
                cases += [(x % y, a % b), (x // y, a // b), (x % b, a % b)]
            for sym, conc in cases:
                t = term_of(sym, 'int')
                if eng._check(t != conc) != z3.unsat:
                    raise HarnessError(f'selftest: proxy arithmetic disagrees with python on a={a}, b={b}: {t} != {conc}')
                n += 1
            for sym, conc in [(x < y, a < b), (x <= y, a <= b), (x == y, a == b), (x != y, a != b), (x > 3, a > 3)]:
                if eng._check(sym.t != bool(conc)) != z3.unsat:
                    raise HarnessError('selftest: proxy comparison disagrees with python')
                n += 1
    return n


def _rewrite_rules(rng):
    n = 0
    for _ in range(12):
        k = rng.randint(1, 12)
        bs = [z3.Bool(f'st_b{i}') for i in range(k)]
        coeffs = [rng.randint(1, 5) for _ in range(k)]
        c0 = rng.randint(0, 3)
        acc = SymInt.lift(c0)
        for b, c in zip(bs, coeffs):
            acc = acc + Bit(b) * c
        got = bool_term(acc % 2)
        naive = (z3.Sum([z3.If(b, c, 0) for b, c in zip(bs, coeffs)]) + c0) % 2 == 1
        s = z3.Solver()
        s.add(got != naive)
        if s.check() != z3.unsat:
            raise HarnessError('selftest: bit-affine % 2 rewrite is not equivalent to the integer encoding')
        # XOR normal form with duplicates and negations
        ts = [rng.choice(bs) if rng.random() < 0.8 else z3.Not(rng.choice(bs)) for _ in range(rng.randint(1, 14))]
        nf = z3_xor(ts, const=rng.random() < 0.5 and False)
        chain = ts[0]
        for t in ts[1:]:
            chain = z3.Xor(chain, t)
        s = z3.Solver()
        s.add(nf != chain)
        if s.check() != z3.unsat:
            raise HarnessError('selftest: XOR normal form is not equivalent to the plain XOR chain')
        n += 2
    return n


def _shim_differential(rng, seed):
    import panqec.bpauli as bp
    import panqec.bsparse as bsp
    import panqec.codes.base._stabilizer_code as sc
    from panqec.codes import Toric2DCode, RotatedPlanar3DCode
    real_np = (bp.np, bsp.np, sc.np)
    real_csr = (bp.csr_matrix, bsp.csr_matrix)
    r = np.random.default_rng(seed)
    n = 0
    want = []
    codes = [Toric2DCode(2, 3), RotatedPlanar3DCode(2, 2, 2)]
    vecs = []
    for code in codes:
        for _ in range(4):
            e = r.integers(0, 2, 2 * code.n).astype(np.uint8)
            vecs.append((code, e))
            want.append((code.measure_syndrome(e).tolist(), code.logical_errors(e).tolist()))
    install(bp, bsp, sc)
    try:
        eng = Engine(name='selftest-shim')
        with eng:
            eng._start_path([])
            for (code, e), (ws, wl) in zip(vecs, want):
                sa = as_sa([int(x) for x in e])
                gs = [int(x) for x in code.measure_syndrome(sa)]
                gl = [int(x) for x in code.logical_errors(sa)]
                if gs != ws or gl != wl:
                    raise HarnessError('selftest: csr_shim / SA path disagrees with real scipy on concrete input')
                n += 2
    finally:
        pass     # the shims stay installed: they are transparent for concrete numpy / scipy operands
    return n


def _planted_mutants():
    """Scratch copies of real bpauli functions with a planted defect must be reported `sat`."""
    import panqec.bpauli as bp
    import panqec.bsparse as bsp
    install(bp, bsp)
    found = 0
    muts = [('bs_prod', 'a_Z.dot(b_X.T)) % 2', 'a_Z.dot(b_X.T)) % 4'),
            ('bs_prod', 'a_X.dot(b_Z.T) + a_Z.dot(b_X.T)', 'a_X.dot(b_Z.T) + a_Z.dot(b_Z.T)'),
            ('get_effective_error', 'effective_Z = bs_prod(logicals_x, total_error)',
             'effective_Z = bs_prod(logicals_z, total_error)')]
    for fname, old, new in muts:
        src = inspect.getsource(getattr(bp, fname))
        if old not in src:
            raise HarnessError(f'selftest: cannot plant mutant in {fname} (source changed) - update symx/selftest.py')
        ns = dict(bp.__dict__)
        exec(compile(src.replace(old, new, 1), f'<mutant {fname}>', 'exec'), ns)
        f = ns[fname]
        n = 2
        A = [z3.Bool(f'sm_a{i}') for i in range(2 * n)]
        B = [z3.Bool(f'sm_b{i}') for i in range(2 * n)]
        eng = Engine(name='selftest-mutant')
        with eng:
            a, b = as_sa([Bit(x) for x in A]), as_sa([Bit(x) for x in B])
            if fname == 'bs_prod':
                ps = eng.explore(lambda: f(a, b))
                spec = [z3_xor([z3.And(A[q], B[n + q]) for q in range(n)] + [z3.And(A[n + q], B[q]) for q in range(n)])]
            else:
                lx = np.array([[1, 0, 0, 0]], dtype=np.uint8)
                lz = np.array([[0, 0, 0, 1]], dtype=np.uint8)
                ps = eng.explore(lambda: f(a, lx, lz))
                spec = [A[1], A[n + 0]]     # X-type flag = anticommutes with logical Z (Z on qubit 1); Z-type flag
        bad = []
        for p in ps:
            if p.exc is not None:
                bad.append(z3.And(p.pc) if p.pc else z3.BoolVal(True))
                continue
            cells = [bool_term(c) for c in np.asarray(p.value).reshape(-1)]
            bad.append(z3.And(p.pc + [z3.Or([c != s_ for c, s_ in zip(cells, spec)] + [z3.BoolVal(len(cells) != len(spec))])]))
        s = z3.Solver()
        s.add(z3.Or(bad))
        if s.check() == z3.sat:
            found += 1
    if found != len(muts):
        raise HarnessError(f'selftest: only {found} of {len(muts)} planted mutants were detected (vacuous harness?)')
    return found


def _array_and_state(rng):
    """(a) a[mask] = v through a symbolic mask equals numpy's masked assignment on pinned random values;
    (b) class-level containers filled on one path are restored before the next path;
    (c) MatchStub: the modelled merge strategies drop exactly the parallel columns pymatching drops."""
    n = 0
    for _ in range(6):
        vals = [rng.randint(-5, 5) for _ in range(5)]
        thr, new = rng.randint(-3, 3), rng.randint(-9, 9)
        want = np.array(vals)
        want[want < thr] = new
        xs = [z3.Int(f'st_m{i}') for i in range(5)]
        eng = Engine(name='selftest-mask')
        with eng:
            def fn():
                a = as_sa([SymInt(x) for x in xs])
                a[a < thr] = new
                return [term_of(c, 'int') for c in a.cells()]
            ps = eng.explore(fn)
        if len(ps) != 1 or ps[0].exc is not None:
            raise HarnessError(f'selftest: masked assignment forked or raised: {ps[0].exc if ps else None}')
        s_ = z3.Solver()
        s_.add(*[x == v for x, v in zip(xs, vals)])
        s_.add(z3.Or([t != int(w) for t, w in zip(ps[0].value, want)]))
        if s_.check() != z3.unsat:
            raise HarnessError('selftest: symbolic masked assignment disagrees with numpy')
        n += 1

    class Memo:
        table: dict = {}
    eng = Engine(name='selftest-isolate', isolate=[Memo])
    seen = []
    with eng:
        b = eng.boolean('st_b') if hasattr(eng, 'boolean') else None
        x = eng.integer('st_i', 0, 1)

        def fn2():
            seen.append(dict(Memo.table))
            Memo.table[len(seen)] = 1
            return int(x)
        ps = eng.explore(fn2)
    if len(ps) != 2 or any(t for t in seen):
        raise HarnessError(f'selftest: class-level container leaked between paths: {seen}')
    n += 1

    import pymatching
    from .stubs import MatchStub
    H = np.array([[1, 1, 1, 0], [0, 0, 1, 1]], dtype=np.uint8)      # columns 0 and 1 are parallel
    w = np.array([3.0, 1.0, 1.0, 1.0])
    eng = Engine(name='selftest-merge')
    with eng:
        eng._start_path([])
        for strat, dropped in (('smallest-weight', set()), ('keep-original', {1}), ('replace', {0})):
            st = MatchStub(H, spacelike_weights=w, merge_strategy=strat)
            if st.dropped != dropped:
                raise HarnessError(f'selftest: MatchStub drops {st.dropped} for {strat}')
            real = pymatching.Matching(H, weights=w, merge_strategy=strat)
            c = real.decode(np.array([1, 0], dtype=np.uint8))
            if any(c[j] for j in dropped) or (strat == 'smallest-weight' and c[0]):
                raise HarnessError(f'selftest: pymatching {strat} returned {c.tolist()}: stub contract is wrong')
            n += 1
    return n


def run(seed=0):
    rng = random.Random(seed)
    e = _array_and_state(rng)
    a = _proxy_semantics(rng)
    b = _rewrite_rules(rng)
    c = _shim_differential(rng, seed)
    d = _planted_mutants()
    return dict(proxy_semantics_cases=a, rewrite_rule_proofs=b, shim_differential_cases=c, planted_mutants_found=d,
                array_state_stub_cases=e)
