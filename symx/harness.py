"""Check framework: obligations, parallel configs, verdict protocol, evidence, known findings."""
from __future__ import annotations

import argparse
import concurrent.futures as cf
import hashlib
import inspect
import json
import multiprocessing as mp
import os
import subprocess
import sys
import time
import traceback
from typing import Any, Callable, Dict, List, Optional

import z3

VERIF = os.path.dirname(os.path.dirname(os.path.abspath(__file__)))
EXIT_OK, EXIT_VIOLATION, EXIT_HARNESS = 0, 1, 2


def src_hash(obj) -> str:
    try:
        src = inspect.getsource(obj)
    except Exception:
        return 'nosource'
    return hashlib.sha256(src.encode()).hexdigest()[:12]


def qualname(obj) -> str:
    return f'{getattr(obj, "__module__", "?")}.{getattr(obj, "__qualname__", repr(obj))}'


def mentions_symbolic_input(t, limit=200000) -> bool:
    """True if the term contains an uninterpreted constant or function application (a symbolic input)."""
    seen = set()
    stack = [t]
    n = 0
    while stack:
        x = stack.pop()
        i = x.get_id()
        if i in seen:
            continue
        seen.add(i)
        n += 1
        if n > limit:
            return True
        if z3.is_app(x):
            if x.decl().kind() == z3.Z3_OP_UNINTERPRETED:
                return True
            stack.extend(x.children())
        elif z3.is_quantifier(x):
            return True
    return False


XCHECK_RATE = {'quick': 20, 'thorough': 5}
XCHECK_TIMEOUT_MS = 10000


def second_solver(text: str, timeout_ms: int):
    """Decide SMT-LIB2 `text` (as printed by z3) with a solver that shares no code with the z3 5.x
    library: cvc5 (Python API, own parser), else the z3 4.8.12 binary.  Returns (verdict, engine)."""
    try:
        import cvc5
        slv = cvc5.Solver()
        slv.setLogic('ALL')
        slv.setOption('tlimit-per', str(timeout_ms))
        parser = cvc5.InputParser(slv)
        parser.setStringInput(cvc5.InputLanguage.SMT_LIB_2_6, text.replace('(check-sat)', ''), 'query')
        sm = parser.getSymbolManager()
        while True:
            cmd = parser.nextCommand()
            if cmd.isNull():
                break
            out = cmd.invoke(slv, sm)
            if '(error' in out:
                raise RuntimeError(out)
        r = slv.checkSat()
        return ('sat' if r.isSat() else 'unsat' if r.isUnsat() else 'unknown'), 'cvc5'
    except Exception:     # noqa: parse error / unsupported operator: fall through to the other engine
        pass
    import tempfile
    with tempfile.NamedTemporaryFile('w', suffix='.smt2', delete=False) as f:
        f.write(text if '(check-sat)' in text else text + '\n(check-sat)\n')
        name = f.name
    try:
        p = subprocess.run(['/usr/bin/z3', f'-T:{max(1, timeout_ms // 1000)}', name], capture_output=True,
                           text=True, timeout=timeout_ms / 1000 + 10)
        out = p.stdout
        if '(error' in out:
            return 'unknown', 'z3-4.8.12'
        first = out.strip().splitlines()[0] if out.strip() else 'unknown'
        return (first if first in ('sat', 'unsat') else 'unknown'), 'z3-4.8.12'
    except (OSError, subprocess.TimeoutExpired):
        return 'unknown', 'z3-4.8.12'
    finally:
        os.unlink(name)


class Ob:
    """One obligation result (JSON-able)."""

    def __init__(self, oid, config, verdict, t=0.0, nontrivial=True, witness=None, detail='',
                 kind='safety'):
        self.d = dict(oid=oid, config=config, verdict=verdict, t=round(t, 4), nontrivial=nontrivial,
                      witness=witness, detail=detail, kind=kind)


class Collector:
    """Used inside a worker: runs solver queries and records obligations."""

    def __init__(self, config: str, timeout_ms=60000):
        self.config = config
        self.timeout_ms = timeout_ms
        self.obs: List[dict] = []
        self.functions: Dict[str, str] = {}
        self.stats = dict(paths=0, branch_queries=0, queries=0, solver_time_s=0.0, realised=0)
        self.notes: List[str] = []

    def encoded(self, *fns):
        for f in fns:
            f0 = f.fget if isinstance(f, property) else f
            f0 = getattr(f0, '__func__', f0)
            self.functions[qualname(f0)] = src_hash(f0)

    def absorb(self, eng):
        s = eng.stats
        self.stats['paths'] += s.paths
        self.stats['branch_queries'] += s.branch_queries
        self.stats['solver_time_s'] += s.solver_time
        self.stats['realised'] += len(s.realised)

    def solve(self, terms, timeout_ms=None):
        s = z3.Solver()
        s.set('timeout', timeout_ms or self.timeout_ms)
        s.add(*terms)
        t0 = time.time()
        r = s.check()
        if r == z3.unknown:
            # second encoding / engine before giving up: z3's nlsat tactic (non-linear real arithmetic)
            try:
                s2 = z3.Tactic('qfnra-nlsat').solver()
                s2.set('timeout', timeout_ms or self.timeout_ms)
                s2.add(*terms)
                r2 = s2.check()
                if r2 != z3.unknown:
                    r, s = r2, s2
                    self.stats['retried_with_nlsat'] = self.stats.get('retried_with_nlsat', 0) + 1
            except z3.Z3Exception:
                pass
        dt = time.time() - t0
        self.stats['queries'] += 1
        self.stats['solver_time_s'] += dt
        return str(r), (s.model() if r == z3.sat else None), dt

    def solve_cvc5(self, terms, timeout_ms=None, want=(), logic='QF_BVFP'):
        """Same query through cvc5 (floating-point queries: ~3x faster than z3's bit-blaster here).
        Returns (verdict, {name: int value} for the bit-vector constants named in `want`, seconds)."""
        import cvc5
        s = z3.Solver()
        s.add(*terms)
        text = f'(set-logic {logic})\n' + s.to_smt2()
        text = text.replace('(check-sat)', '')
        slv = cvc5.Solver()
        slv.setOption('produce-models', 'true')
        slv.setOption('tlimit-per', str(timeout_ms or self.timeout_ms))
        parser = cvc5.InputParser(slv)
        parser.setStringInput(cvc5.InputLanguage.SMT_LIB_2_6, text, 'query')
        sm = parser.getSymbolManager()
        t0 = time.time()
        while True:
            cmd = parser.nextCommand()
            if cmd.isNull():
                break
            out = cmd.invoke(slv, sm)
            if '(error' in out:
                raise RuntimeError('cvc5: ' + out)
        r = slv.checkSat()
        dt = time.time() - t0
        self.stats['queries'] += 1
        self.stats['solver_time_s'] += dt
        verdict = 'sat' if r.isSat() else 'unsat' if r.isUnsat() else 'unknown'
        vals = {}
        if verdict == 'sat':
            for name in want:
                for term in sm.getDeclaredTerms():
                    if str(term) == name:
                        v = slv.getValue(term)
                        vals[name] = int(v.getBitVectorValue(10))
        return verdict, vals, dt

    def cross_check(self, oid, terms):
        """Second opinion on an `unsat` verdict from an independent solver (cvc5 through its own parser of
        the SMT-LIB2 text; the z3 4.8.12 binary when cvc5 cannot parse the text).  Sampled
        deterministically: 1 obligation in XCHECK_RATE[tier] by hash of (configuration, obligation id).
        Returns 'agree' | 'disagree' | 'unknown' | None (not sampled)."""
        rate = XCHECK_RATE.get(os.environ.get('VERIF_TIER', 'quick'), 20)
        if os.environ.get('VERIF_XCHECK_RATE'):
            rate = int(os.environ['VERIF_XCHECK_RATE'])
        if rate <= 0:
            return None
        h = int(hashlib.sha256(f'{self.config}|{oid}'.encode()).hexdigest()[:8], 16)
        if h % rate:
            return None
        s = z3.Solver()
        s.add(*terms)
        text = s.to_smt2()
        t0 = time.time()
        verdict, engine = second_solver(text, XCHECK_TIMEOUT_MS)
        dt = time.time() - t0
        st = self.stats
        st['xcheck_time_s'] = round(st.get('xcheck_time_s', 0.0) + dt, 3)
        out = {'unsat': 'agree', 'sat': 'disagree'}.get(verdict, 'unknown')
        st['xcheck_' + out] = st.get('xcheck_' + out, 0) + 1
        st['xcheck_by_' + engine] = st.get('xcheck_by_' + engine, 0) + 1
        return out

    def prove(self, oid, assumptions, negated_goal, witness_fn: Optional[Callable] = None,
              detail='', timeout_ms=None):
        """Discharge: assumptions /\\ negated_goal must be unsat."""
        terms = list(assumptions) + [negated_goal]
        # non-trivial: the obligation quantifies over at least one symbolic input (ground facts do not)
        nontrivial = mentions_symbolic_input(negated_goal)
        by_simplifier = z3.is_false(z3.simplify(negated_goal))
        if by_simplifier:
            r, m, dt = 'unsat', None, 0.0
            self.stats['queries'] += 1
            self.stats['by_simplifier'] = self.stats.get('by_simplifier', 0) + 1
        else:
            r, m, dt = self.solve(terms, timeout_ms)
        w = None
        if r == 'sat' and witness_fn is not None:
            w = witness_fn(m)
        xc = None
        if r == 'unsat' and not by_simplifier:
            try:
                xc = self.cross_check(oid, terms)
            except Exception as e:     # noqa: a broken second solver must not hide the first verdict
                self.notes.append(f'cross-check failed for {oid}: {type(e).__name__}: {e}'[:300])
                self.stats['xcheck_error'] = self.stats.get('xcheck_error', 0) + 1
            if xc == 'disagree':
                r, detail = 'unknown', 'SOLVER-DISAGREEMENT (z3: unsat, second solver: sat) ' + detail
        o = Ob(oid, self.config, r, dt, nontrivial, w, detail).d
        o['decided_by'] = 'z3.simplify (normal form)' if by_simplifier else 'solver'
        if xc:
            o['second_solver'] = xc
        self.obs.append(o)
        return r, m

    def reach(self, oid, assumptions, detail='', witness_fn=None, timeout_ms=None):
        """Reachability twin: assumptions must be satisfiable (else the harness is vacuous)."""
        r, m, dt = self.solve(list(assumptions), timeout_ms)
        verdict = {'sat': 'reachable', 'unsat': 'vacuous', 'unknown': 'unknown'}[r]
        w = witness_fn(m) if (r == 'sat' and witness_fn) else None
        self.obs.append(Ob(oid, self.config, verdict, dt, True, w, detail, kind='reach').d)
        return r, m

    def record(self, oid, verdict, t=0.0, nontrivial=True, witness=None, detail='', kind='safety'):
        self.obs.append(Ob(oid, self.config, verdict, t, nontrivial, witness, detail, kind).d)

    def result(self):
        return dict(config=self.config, obs=self.obs, functions=self.functions, stats=self.stats,
                    notes=self.notes)


def in_forked_child(fn, timeout=600):
    """Run fn() in a forked child and return its (picklable) result: each realised history gets a process
    of its own, so process-wide state one history leaves behind (lru_caches, class-level memos, module
    globals) cannot leak into the next one.  Exceptions are re-raised in the parent as RuntimeError."""
    import pickle
    r, w = os.pipe()
    pid = os.fork()
    if pid == 0:
        code = 0
        try:
            os.close(r)
            try:
                payload = pickle.dumps(('ok', fn()))
            except BaseException as e:   # noqa
                last = traceback.extract_tb(e.__traceback__)[-1].filename if e.__traceback__ else ''
                mine = os.path.abspath(last).startswith(VERIF + os.sep) and '/site-packages/' not in last
                payload = pickle.dumps(('harness' if mine else 'exc', f'{type(e).__name__}: {e}'))
            with os.fdopen(w, 'wb') as f:
                f.write(payload)
        except BaseException:            # noqa
            code = 1
        finally:
            os._exit(code)
    os.close(w)
    with os.fdopen(r, 'rb') as f:
        data = f.read()
    os.waitpid(pid, 0)
    if not data:
        raise RuntimeError('forked child produced no result')
    kind, val = pickle.loads(data)
    if kind == 'harness':       # raised by a line of the harness itself, not by the code under test
        from .core import HarnessError
        raise HarnessError('in forked child: ' + val)
    if kind == 'exc':
        raise RuntimeError(val)
    return val


def _run_worker(args):
    modname, fname, config, kwargs = args
    t0 = time.time()
    try:
        sys.setrecursionlimit(20000)
        mod = __import__(modname, fromlist=[fname])
        res = getattr(mod, fname)(config, **kwargs)
        res['wall'] = time.time() - t0
        return res
    except BaseException as e:   # noqa
        if type(e).__name__ == 'Inconclusive':
            return dict(config=str(config), functions={}, stats={}, notes=[], wall=time.time() - t0,
                        obs=[Ob('exploration-cap', str(config), 'unknown', time.time() - t0, True, None,
                                f'exploration stopped: {e}').d])
        return dict(config=str(config), obs=[], functions={}, stats={}, notes=[],
                    error=f'{type(e).__name__}: {e}\n{traceback.format_exc()}', wall=time.time() - t0)


SELFTEST: Dict[str, Any] = {}


def _selftest_proc(seed, q):
    try:
        from . import selftest
        q.put(('ok', selftest.run(seed)))
    except BaseException as e:   # noqa
        q.put(('error', f'{type(e).__name__}: {e}'))


def run_selftest(seed=0):
    """Engine self-test in a child process (it installs shims and plants mutants)."""
    ctx = mp.get_context('fork')
    q = ctx.Queue()
    p = ctx.Process(target=_selftest_proc, args=(seed, q))
    p.start()
    try:
        status, info = q.get(timeout=300)
    except Exception:
        status, info = 'error', 'self-test timed out'
    p.join(10)
    SELFTEST.clear()
    SELFTEST.update(status=status, info=info)
    return status == 'ok'


def run_configs(modname: str, fname: str, configs: List[Any], kwargs=None, jobs=None,
                per_config_timeout=None) -> List[dict]:
    """Run worker(config) for every config in parallel processes."""
    kwargs = kwargs or {}
    if not SELFTEST:
        run_selftest(int(os.environ.get('VERIF_SEED', '0')))
    jobs = jobs or min(16, os.cpu_count() or 4, max(1, len(configs)))
    if len(configs) == 0:
        return []
    return _fork_map([(modname, fname, c, kwargs) for c in configs], jobs)


def _fork_map(argslist, jobs):
    """One forked process PER configuration (at most `jobs` at a time), results through pipes: no
    configuration ever runs in a process another configuration has used, so process-wide state of the code
    under test (class-level memos, lru_caches, module globals) cannot travel between configurations."""
    import pickle
    import select
    out = [None] * len(argslist)
    pending = list(range(len(argslist)))[::-1]
    running = {}          # read fd -> (index, pid, chunks)
    while pending or running:
        while pending and len(running) < jobs:
            i = pending.pop()
            r, w = os.pipe()
            sys.stdout.flush()
            sys.stderr.flush()
            pid = os.fork()
            if pid == 0:
                code = 0
                try:
                    os.close(r)
                    for fd in list(running):
                        os.close(fd)
                    res = _run_worker(argslist[i])
                    try:
                        payload = pickle.dumps(res)
                    except Exception as e:     # noqa: unpicklable witness etc.
                        payload = pickle.dumps(dict(config=str(argslist[i][2]), obs=[], functions={}, stats={}, notes=[],
                                                    error=f'result not picklable: {type(e).__name__}: {e}', wall=0))
                    with os.fdopen(w, 'wb') as f:
                        f.write(payload)
                except BaseException:          # noqa
                    code = 1
                finally:
                    os._exit(code)
            os.close(w)
            running[r] = (i, pid, [])
        ready, _, _ = select.select(list(running), [], [], 5.0)
        for fd in ready:
            i, pid, chunks = running[fd]
            data = os.read(fd, 1 << 20)
            if data:
                chunks.append(data)
                continue
            os.close(fd)
            os.waitpid(pid, 0)
            del running[fd]
            blob = b''.join(chunks)
            if blob:
                out[i] = pickle.loads(blob)
            else:
                out[i] = dict(config=str(argslist[i][2]), obs=[], functions={}, stats={}, notes=[], wall=0,
                              error='worker process died without a result (killed / out of memory?)')
    return out


# --------------------------------------------------------------------------------------
# known findings

def load_known():
    p = os.path.join(VERIF, 'known_findings.json')
    if not os.path.exists(p):
        return []
    with open(p) as f:
        return json.load(f).get('findings', [])


def match_known(known, pid, ob) -> Optional[dict]:
    import fnmatch
    for k in known:
        if k.get('status', 'open') != 'open':
            continue
        if k['property'] != pid:
            continue
        pats = k['obligation'] if isinstance(k['obligation'], list) else [k['obligation']]
        if not any(fnmatch.fnmatchcase(ob['oid'], p) for p in pats):
            continue
        cpats = k.get('config', '*')
        cpats = cpats if isinstance(cpats, list) else [cpats]
        if not any(fnmatch.fnmatchcase(ob['config'], p) for p in cpats):
            continue
        wk = k.get('witness_match')
        if wk:
            w = ob.get('witness') or {}
            if any(str(w.get(a)) != str(b) for a, b in wk.items()):
                continue
        return k
    return None


# --------------------------------------------------------------------------------------
# replay

def replay_in_fresh_interpreter(pid: str, witness: dict, oid: str, config: str) -> dict:
    """Re-run the counterexample against the real code (no shims) in a new interpreter."""
    os.makedirs(os.path.join(VERIF, 'replays'), exist_ok=True)
    h = hashlib.sha256(json.dumps([pid, oid, config, witness], sort_keys=True, default=str)
                       .encode()).hexdigest()[:10]
    path = os.path.join(VERIF, 'replays', f'{pid}-{h}.json')
    with open(path, 'w') as f:
        json.dump(dict(property=pid, oid=oid, config=config, witness=witness), f, indent=1,
                  default=str)
    cmd = [os.path.join(VERIF, 'check'), pid, '--replay', path]
    try:
        p = subprocess.run(cmd, capture_output=True, text=True, timeout=600, cwd=VERIF)
    except subprocess.TimeoutExpired:
        return dict(reproduced=None, path=path, out='replay timeout')
    rep = None
    for line in p.stdout.splitlines():
        if line.startswith('REPLAY '):
            rep = line.split()[1] == 'reproduced'
    return dict(reproduced=rep, path=path, out=(p.stdout + p.stderr)[-2000:])


# --------------------------------------------------------------------------------------
# finishing a check

def finish(pid: str, tier: str, seed: int, results: List[dict], t0: float, level='model_checking',
           assumptions: List[str] = (), bounds: Dict[str, Any] = None, stubs: List[str] = (),
           outside: List[str] = (), rule=None, extra=None) -> int:
    known = load_known()
    obs = [o for r in results for o in r['obs']]
    errors = [(r['config'], r['error']) for r in results if r.get('error')]
    functions: Dict[str, str] = {}
    stats = dict(paths=0, branch_queries=0, queries=0, solver_time_s=0.0, realised=0, by_simplifier=0)
    for r in results:
        functions.update(r.get('functions', {}))
        for k in stats:
            stats[k] += r.get('stats', {}).get(k, 0)
    stats['solver_time_s'] = round(stats['solver_time_s'], 3)
    xc, tv = {}, {}
    for r in results:
        for k, v in r.get('stats', {}).items():
            if k.startswith('xcheck_'):
                xc[k] = round(xc.get(k, 0) + v, 3)
            if k.startswith('encoding_'):
                tv[k] = tv.get(k, 0) + v

    exit_code = EXIT_OK
    violations = 0
    lines = []
    n_dis = n_sat = n_inc = n_reach = 0
    replayed_per_oid: Dict[str, int] = {}
    known_done: Dict[str, bool] = {}
    # decide the replay order: violations not covered by a known finding first
    sat_obs = [o for o in obs if o['verdict'] == 'sat']
    for o in sat_obs:
        o['_known'] = match_known(known, pid, o)
    sat_obs.sort(key=lambda o: o['_known'] is not None)
    for o in obs:
        v = o['verdict']
        if v == 'unsat':
            n_dis += 1
        elif v == 'reachable':
            n_reach += 1
        elif v == 'vacuous':
            lines.append(f'HARNESS-ERROR vacuous harness: {o["oid"]} @ {o["config"]}')
            exit_code = max(exit_code, EXIT_HARNESS)
        elif v == 'unknown':
            n_inc += 1
            lines.append(f'INCONCLUSIVE property={pid} {o["oid"]} @ {o["config"]} {o["detail"]}')
            if str(o['detail']).startswith('SOLVER-DISAGREEMENT'):
                lines.append(f'HARNESS-ERROR two solvers disagree on {o["oid"]} @ {o["config"]}')
                exit_code = max(exit_code, EXIT_HARNESS)
    for o in sat_obs:
        n_sat += 1
        k = o.pop('_known')
        if k is not None:
            kid = k.get('id', str(k['obligation']) + str(k.get('config', '')))
            o['known_finding'] = kid
            if kid in known_done:
                o['replay'] = 'not replayed (known finding already confirmed on another obligation)'
                continue
            rep = replay_in_fresh_interpreter(pid, o.get('witness') or {}, o['oid'], o['config'])
            if rep['reproduced'] is True:
                known_done[kid] = True
                lines.append(f'KNOWN-FINDING: property={pid} {k["what"]}')
                o['replay'] = dict(reproduced=True)
                try:
                    os.remove(rep['path'])
                except OSError:
                    pass
            else:
                lines.append(f'HARNESS-ERROR known-finding counterexample did not reproduce: {o["oid"]} @ '
                             f'{o["config"]} ({rep["path"]})\n{rep["out"][-800:]}')
                exit_code = max(exit_code, EXIT_HARNESS)
            continue
        # replay at most 3 counterexamples per obligation id and 30 in total (each replay is a fresh
        # interpreter); further ones of the same obligation are counted but not reported
        if replayed_per_oid.get(o['oid'], 0) >= 3 or sum(replayed_per_oid.values()) >= 30:
            o['replay'] = 'skipped (same obligation already replayed)'
            continue
        replayed_per_oid[o['oid']] = replayed_per_oid.get(o['oid'], 0) + 1
        rep = replay_in_fresh_interpreter(pid, o.get('witness') or {}, o['oid'], o['config'])
        o['replay'] = dict(reproduced=rep['reproduced'], path=os.path.relpath(rep['path'], VERIF))
        if rep['reproduced'] is True:
            violations += 1
            lines.append(f'VIOLATION property={pid} replay={rep["path"]}')
            lines.append(f'  obligation {o["oid"]} @ {o["config"]}: {o["detail"]}')
            exit_code = max(exit_code, EXIT_VIOLATION)
        else:
            lines.append(f'HARNESS-ERROR counterexample did not reproduce: {o["oid"]} @ '
                         f'{o["config"]} (model kept in {rep["path"]})\n{rep["out"][-800:]}')
            exit_code = max(exit_code, EXIT_HARNESS)
    for c, e in errors:
        lines.append(f'HARNESS-ERROR worker failed @ {c}: {e[-1500:]}')
        exit_code = max(exit_code, EXIT_HARNESS)
    if SELFTEST and SELFTEST.get('status') != 'ok':
        lines.append(f'HARNESS-ERROR engine self-test failed: {SELFTEST.get("info")}')
        exit_code = max(exit_code, EXIT_HARNESS)
    if exit_code == EXIT_HARNESS and violations:
        exit_code = EXIT_VIOLATION

    safety = [o for o in obs if o['kind'] != 'reach']
    distinct = len({(o['oid'], o['config']) for o in safety if o['nontrivial']})
    samples = []
    seen = set()
    for o in sorted(safety, key=lambda o: not o['nontrivial']):
        if o['oid'] not in seen:
            seen.add(o['oid'])
            samples.append({k: o.get(k) for k in ('oid', 'config', 'verdict', 't', 'detail', 'decided_by')})
    for o in obs:
        if o['verdict'] == 'sat' and len(samples) < 60:
            samples.append({k: o.get(k) for k in ('oid', 'config', 'verdict', 'witness', 'replay',
                                                  'known_finding')})
    cov = dict(
        evaluations=stats['queries'] + stats['branch_queries'],
        distinct_nontrivial=distinct,
        rule=rule or ('one evaluation = one SMT query (branch feasibility or goal); an obligation = (configuration, '
                      'assertion) pair decided for ALL values of the symbolic inputs; it is counted non-trivial when '
                      'its negated goal mentions at least one symbolic input (ground facts about concrete tables are '
                      'trivial); distinct = distinct (obligation id, configuration) pairs; decided_by_simplifier counts '
                      'the goals that z3.simplify already reduced to false after the proxies\' normal forms'),
        samples=samples[:60],
        # model-checking style keys: explored symbolic paths, branch decisions taken, counterexamples replayed
        states=max(1, stats['paths']),
        transitions=max(1, stats['branch_queries']),
        traces_validated_against_impl=sum(replayed_per_oid.values()) + len(known_done),
        obligations=len(safety),
        discharged=n_dis,
        decided_by_simplifier=stats['by_simplifier'],
        sat=n_sat,
        inconclusive=n_inc,
        reachability_witnesses=n_reach,
        paths=stats['paths'],
        branch_queries=stats['branch_queries'],
        goal_queries=stats['queries'],
        solver_time_s=stats['solver_time_s'],
        realised_values=stats['realised'],
        functions_encoded=functions,
        stubs=list(stubs),
        bounds=bounds or {},
        outside_claim=list(outside),
        configurations=[r['config'] for r in results],
        trusted_base=['z3 ' + z3.get_version_string(), 'symx proxies (self-tested per run)',
                      'numpy object-dtype dispatch'],
        explanation='bounded symbolic execution of the real panqec functions with z3; see DESIGN.md',
        per_config_wall_s={r['config']: round(r.get('wall', 0), 2) for r in results},
        engine_selftest=dict(SELFTEST),
        translation_validation=dict(tv, rule='symbolic paths instantiated at concrete inputs and compared with the real, '
                                    'unshimmed function (a mismatch is a harness error)') if tv else {},
        second_solver=dict(xc, rule=f'1 solver-decided unsat obligation in {os.environ.get("VERIF_XCHECK_RATE") or XCHECK_RATE.get(tier)} (hash of '
                           'configuration and obligation id) is re-decided from its SMT-LIB2 text by cvc5 '
                           f'(z3 4.8.12 binary if cvc5 cannot parse it), {XCHECK_TIMEOUT_MS} ms; a `sat` answer '
                           'is a harness error (exit 2), `unknown` is only counted'),
    )
    if extra:
        cov.update(extra)
    ev = dict(property_id=pid, tier=tier, seed=seed, level=level, coverage=cov,
              assumptions=list(assumptions), wall_s=round(time.time() - t0, 2), violations=violations)
    os.makedirs(os.path.join(VERIF, 'evidence'), exist_ok=True)
    with open(os.path.join(VERIF, 'evidence', f'{pid}.json'), 'w') as f:
        json.dump(ev, f, indent=1, default=str)
    for ln in lines:
        print(ln)
    print(f'{pid} [{tier}] obligations={len(safety)} discharged={n_dis} sat={n_sat} '
          f'inconclusive={n_inc} reach={n_reach} paths={stats["paths"]} '
          f'queries={stats["queries"] + stats["branch_queries"]} solver={stats["solver_time_s"]}s '
          f'wall={ev["wall_s"]}s exit={exit_code}')
    return exit_code


def std_args(argv=None):
    ap = argparse.ArgumentParser()
    ap.add_argument('--tier', default=os.environ.get('VERIF_TIER', 'quick'))
    ap.add_argument('--replay', default=None)
    ap.add_argument('--jobs', type=int, default=None)
    ap.add_argument('--only', default=None, help='substring filter on configuration names')
    a = ap.parse_args(argv)
    a.seed = int(os.environ.get('VERIF_SEED', '0'))
    if a.tier not in ('quick', 'thorough'):
        a.tier = 'quick'
    os.environ['VERIF_TIER'] = a.tier        # inherited by the worker processes (cross-check sampling rate)
    return a
