"""Symbolic arrays: SA (ndarray subclass, dtype=object), the numpy allocation proxy, and the
csr_matrix shim (SymSparse).  See DESIGN.md 1.2 / 1.4."""
from __future__ import annotations

import operator
import types
from typing import Any, List

import numpy as np
import scipy.sparse as _sp
import z3

from . import core
from .core import (Bit, SymBool, SymInt, SymReal, HarnessError, _is_sym, bool_term, z3_and, z3_or,
                   is_symbolic)

_REAL_CSR = _sp.csr_matrix


# --------------------------------------------------------------------------------------
# cell-level helpers

def _truth(x):
    """SymBool / bool 'is true' of a cell (numpy truthiness of a number)."""
    if isinstance(x, SymBool):
        return x
    if isinstance(x, Bit):
        return SymBool(x.t)
    if isinstance(x, SymInt):
        if x.aff is not None and x.aff[0] >= 0 and all(c > 0 for _, c in x.aff[1]):
            # non-negative combination of bits: nonzero iff constant > 0 or some bit set
            if x.aff[0] > 0:
                return True
            return SymBool(z3_or([t for t, _ in x.aff[1]]))
        return SymBool(x.t != 0)
    if isinstance(x, SymReal):
        return SymBool(x.t != 0)
    return bool(x)


def _land(a, b):
    a, b = _truth(a), _truth(b)
    if isinstance(a, bool):
        return b if a else False
    if isinstance(b, bool):
        return a if b else False
    return SymBool(z3.And(a.t, b.t))


def _lor(a, b):
    a, b = _truth(a), _truth(b)
    if isinstance(a, bool):
        return True if a else b
    if isinstance(b, bool):
        return True if b else a
    return SymBool(z3.Or(a.t, b.t))


def _lxor(a, b):
    a, b = _truth(a), _truth(b)
    if isinstance(a, bool) and isinstance(b, bool):
        return a != b
    if isinstance(a, bool):
        return SymBool(z3.Not(b.t)) if a else b
    if isinstance(b, bool):
        return SymBool(z3.Not(a.t)) if b else a
    return SymBool(z3.Xor(a.t, b.t))


def _lnot(a):
    a = _truth(a)
    if isinstance(a, bool):
        return not a
    return SymBool(z3.Not(a.t))


def _mk_cmp(op):
    def f(a, b):
        r = op(a, b)
        if r is NotImplemented:
            raise HarnessError(f'comparison not implemented for {type(a)} / {type(b)}')
        if isinstance(r, (np.bool_,)):
            return bool(r)
        return r
    return f


def _log(x):
    if isinstance(x, (SymReal, core.SymFP)):
        return x.log()
    if _is_sym(x):
        return SymReal.lift(x).log()
    return float(np.log(float(x)))


def _exp(x):
    if isinstance(x, SymReal):
        return x.exp()
    if _is_sym(x):
        return SymReal.lift(x).exp()
    return float(np.exp(float(x)))


def _sqrt(x):
    if isinstance(x, SymReal):
        return x.sqrt()
    if _is_sym(x):
        return SymReal.lift(x).sqrt()
    return float(np.sqrt(float(x)))


def _tanh(x):
    if isinstance(x, SymReal):
        return x.tanh()
    return float(np.tanh(float(x)))


def _bor(a, b):
    # numpy bool + bool (logical or) / integer bitwise or for 0/1 cells
    return operator.or_(a, b)


_OBJ_UFUNCS = {
    np.equal: np.frompyfunc(_mk_cmp(operator.eq), 2, 1),
    np.not_equal: np.frompyfunc(_mk_cmp(operator.ne), 2, 1),
    np.less: np.frompyfunc(_mk_cmp(operator.lt), 2, 1),
    np.less_equal: np.frompyfunc(_mk_cmp(operator.le), 2, 1),
    np.greater: np.frompyfunc(_mk_cmp(operator.gt), 2, 1),
    np.greater_equal: np.frompyfunc(_mk_cmp(operator.ge), 2, 1),
    np.logical_and: np.frompyfunc(_land, 2, 1),
    np.logical_or: np.frompyfunc(_lor, 2, 1),
    np.logical_xor: np.frompyfunc(_lxor, 2, 1),
    np.logical_not: np.frompyfunc(_lnot, 1, 1),
    np.invert: np.frompyfunc(lambda a: _lnot(a) if isinstance(a, (SymBool, bool, np.bool_)) else ~a, 1, 1),
    np.log: np.frompyfunc(_log, 1, 1),
    np.exp: np.frompyfunc(_exp, 1, 1),
    np.sqrt: np.frompyfunc(_sqrt, 1, 1),
    np.tanh: np.frompyfunc(_tanh, 1, 1),
}

_NATIVE_OBJ = {np.add, np.subtract, np.multiply, np.remainder, np.floor_divide, np.true_divide,
               np.negative, np.positive, np.absolute, np.matmul, np.bitwise_and, np.bitwise_or,
               np.bitwise_xor, np.power, np.minimum, np.maximum}


def _plain(x):
    if isinstance(x, SA):
        return x.view(np.ndarray)
    if isinstance(x, np.ndarray) and x.dtype != object:
        # numpy bool / uint8 scalars inside object loops: convert to python numbers
        return x.astype(object)
    return x


def _wrap(r):
    if isinstance(r, np.ndarray) and r.dtype == object and not isinstance(r, SA):
        return r.view(SA)
    if isinstance(r, tuple):
        return tuple(_wrap(x) for x in r)
    return r


# --------------------------------------------------------------------------------------
# SA

class SA(np.ndarray):
    """Object-dtype ndarray whose cells are symx proxies or concrete numbers."""
    __array_priority__ = 100.0

    def __new__(cls, data):
        a = np.empty(np.shape(data), dtype=object) if not isinstance(data, np.ndarray) else None
        if a is None:
            a = data.astype(object) if data.dtype != object else data
            return a.view(cls)
        flat = a.reshape(-1)
        src = np.asarray(_to_obj(data), dtype=object).reshape(-1) if a.size else []
        for i, v in enumerate(src):
            flat[i] = v
        return a.view(cls)

    def __array_ufunc__(self, ufunc, method, *inputs, out=None, **kwargs):
        ins = [_plain(x) for x in inputs]
        if out is not None:
            kwargs['out'] = tuple(_plain(o) if isinstance(o, SA) else o for o in out)
        if ufunc in _OBJ_UFUNCS:
            f = _OBJ_UFUNCS[ufunc]
            kwargs.pop('dtype', None)
            if method == '__call__':
                r = f(*ins, **kwargs)
            elif method == 'reduce':
                r = f.reduce(*ins, **kwargs)
            else:
                raise HarnessError(f'SA: ufunc method {ufunc.__name__}.{method} not modelled')
        elif ufunc in _NATIVE_OBJ:
            if 'out' not in kwargs and method in ('__call__', 'reduce', 'accumulate'):
                kwargs['dtype'] = object
            elif method == 'reduce':
                kwargs['dtype'] = object
            r = getattr(ufunc, method)(*ins, **kwargs)
        else:
            raise HarnessError(f'SA: ufunc {ufunc.__name__} not modelled')
        if out is not None:
            o = out[0]
            return o
        if isinstance(r, np.ndarray):
            if r.dtype != object:
                r = r.astype(object)
            return r.view(SA)
        return r

    def __array_function__(self, func, types_, args, kwargs):
        h = _FUNCS.get(func)
        if h is not None:
            return h(*args, **kwargs)
        r = super().__array_function__(func, types_, args, kwargs)
        return _wrap(r)

    # -- symbolic index: If-chain over the (concrete-size) axis instead of realising the index
    def __getitem__(self, key):
        if isinstance(key, (SymInt, Bit)) and self.ndim == 1:
            k = key if isinstance(key, SymInt) else key.as_int()
            cells = self.view(np.ndarray)
            acc = cells[0]
            for i in range(1, len(cells)):
                acc = ite(SymBool(k.t == i), cells[i], acc)
            return acc
        if self.ndim == 1 and _is_sym_index_list(key):
            # fancy indexing with a list of (possibly symbolic) integer positions
            return as_sa([self[k] for k in _index_list(key)])
        if isinstance(key, tuple) and len(key) >= 1 and isinstance(key[0], np.ndarray) and key[0].dtype == object:
            m0 = np.array([bool(c) for c in key[0].view(np.ndarray).reshape(-1)], dtype=bool)
            return super().__getitem__((m0,) + tuple(key[1:]))
        if isinstance(key, np.ndarray) and key.dtype == object and key.shape == self.shape:
            # boolean mask with symbolic cells: the selection (and the result's length) depends on the
            # values, so the mask is realised cell by cell (forks)
            mask = np.array([bool(c) for c in key.view(np.ndarray).reshape(-1)], dtype=bool).reshape(key.shape)
            return super().__getitem__(mask)
        return super().__getitem__(key)

    def __setitem__(self, key, value):
        if isinstance(key, (SymInt, Bit)) and self.ndim == 1:
            k = key if isinstance(key, SymInt) else key.as_int()
            cells = self.view(np.ndarray)
            for i in range(len(cells)):
                cells[i] = ite(SymBool(k.t == i), value, cells[i])
            return
        if self.ndim == 1 and _is_sym_index_list(key):
            # a[[i, j, ...]] = v with symbolic positions: numpy assigns position by position (a repeated
            # position keeps the last value); the right-hand side was evaluated before
            ks = _index_list(key)
            vals = [value] * len(ks) if np.ndim(value) == 0 else list(np.asarray(value, dtype=object).reshape(-1))
            if len(vals) != len(ks):
                raise ValueError(f'shape mismatch: value array of size {len(vals)} for {len(ks)} positions')
            for k_, v_ in zip(ks, vals):
                self[k_] = v_
            return
        if isinstance(key, np.ndarray) and key.dtype == object and key.shape == self.shape:
            # a[mask] = v with a symbolic boolean mask: cell-wise if-then-else for a scalar v; for an
            # array v (consumed in order of the True cells) the mask is realised
            kc = key.view(np.ndarray).reshape(-1)
            if np.ndim(value) == 0:
                cells = self.view(np.ndarray).reshape(-1)      # a view: writes go through
                if cells.base is None and self.size:
                    raise HarnessError('masked assignment on a non-contiguous symbolic array')
                for i in range(len(cells)):
                    m = kc[i]
                    if isinstance(m, (bool, np.bool_)):
                        if m:
                            cells[i] = value
                    else:
                        cells[i] = ite(SymBool(bool_term(m)), value, cells[i])
                return
            mask = np.array([bool(c) for c in kc], dtype=bool).reshape(key.shape)
            return super().__setitem__(mask, value)
        super().__setitem__(key, value)

    # -- methods numpy would route to C truthiness / numeric casts
    def astype(self, dtype, *a, **k):
        if dtype is str or (isinstance(dtype, str) and dtype in ('str', 'U', '<U1')):
            flat = [str(c) for c in self.view(np.ndarray).reshape(-1)]    # realises symbolic cells
            return np.array(flat).reshape(self.shape)
        if not is_symbolic(self):
            if np.dtype(dtype) == object:
                return self.copy()
            return np.asarray(self.view(np.ndarray).tolist()).astype(dtype)
        if dtype is bool or dtype == np.bool_:
            return NpProxy._as_bool_cells(self.view(np.ndarray))
        return self.copy()

    def all(self, axis=None, **k):
        return sa_all(self, axis=axis)

    def any(self, axis=None, **k):
        return sa_any(self, axis=axis)

    def sum(self, axis=None, **k):
        return sa_sum(self, axis=axis)

    def prod(self, axis=None, **k):
        return _wrap(np.multiply.reduce(self.view(np.ndarray), axis=axis, dtype=object))

    def mean(self, axis=None, **k):
        tot = sa_sum(self, axis=axis)
        cnt = self.size if axis is None else self.shape[axis]
        return tot / cnt

    def dot(self, other):
        return sym_matmul(self, other)

    def tolist(self):
        return self.view(np.ndarray).tolist()

    def cells(self) -> List[Any]:
        return list(self.view(np.ndarray).reshape(-1))

    def __bool__(self):
        if self.size == 1:
            return bool(self.reshape(-1)[0])
        raise ValueError('The truth value of an array with more than one element is ambiguous.')


def _index_list(key):
    return list(key.reshape(-1)) if isinstance(key, np.ndarray) else list(key)


def _is_sym_index_list(key):
    """list / 1-D object array of integer positions at least one of which is symbolic (SymInt)."""
    if isinstance(key, np.ndarray):
        if key.dtype != object or key.ndim != 1:
            return False
        items = list(key)
    elif isinstance(key, list):
        items = key
    else:
        return False
    if not items or not any(isinstance(k, SymInt) for k in items):
        return False
    return all(isinstance(k, (SymInt, int, np.integer)) and not isinstance(k, (bool, np.bool_)) for k in items)


def _to_obj(data):
    if isinstance(data, (list, tuple)):
        return [_to_obj(x) for x in data]
    return data


def as_sa(x) -> SA:
    if isinstance(x, SA):
        return x
    if isinstance(x, np.ndarray):
        return (x if x.dtype == object else x.astype(object)).view(SA)
    a = np.empty(len(x), dtype=object)
    for i, v in enumerate(x):
        a[i] = v
    return a.view(SA)


def concretize(x):
    """Real numeric ndarray if all cells are concrete, else None."""
    if isinstance(x, np.ndarray) and x.dtype == object:
        if is_symbolic(x):
            return None
        return np.array(x.view(np.ndarray).tolist())
    return x


def sa_all(a, axis=None, **k):
    a = np.asarray(a).view(np.ndarray)
    if axis is not None:
        return _wrap(np.apply_along_axis(lambda v: np.array(sa_all(v), dtype=object), axis, a))
    ts = []
    for c in a.reshape(-1):
        t = _truth(c)
        if isinstance(t, bool):
            if not t:
                return False
        else:
            ts.append(t.t)
    if not ts:
        return True
    return SymBool(z3_and(ts))


def sa_any(a, axis=None, **k):
    a = np.asarray(a).view(np.ndarray)
    if axis is not None:
        return _wrap(np.apply_along_axis(lambda v: np.array(sa_any(v), dtype=object), axis, a))
    ts = []
    for c in a.reshape(-1):
        t = _truth(c)
        if isinstance(t, bool):
            if t:
                return True
        else:
            ts.append(t.t)
    if not ts:
        return False
    return SymBool(z3_or(ts))


def sa_count_nonzero(a, axis=None, **k):
    a = np.asarray(a).view(np.ndarray)
    if axis is not None:
        raise HarnessError('count_nonzero(axis) not modelled')
    tot: Any = 0
    for c in a.reshape(-1):
        t = _truth(c)
        if isinstance(t, bool):
            tot = tot + int(t)
        else:
            tot = tot + Bit(t.t)
    return tot


def sa_array_equal(a, b, **k):
    a, b = np.asarray(a), np.asarray(b)
    if a.shape != b.shape:
        return False
    eq = _OBJ_UFUNCS[np.equal](_plain(a), _plain(b))
    return sa_all(eq)


def sa_where(cond, x=None, y=None):
    if x is None:
        c = concretize(np.asarray(cond))
        if c is None:
            # realise each cell (forks)
            c = np.array([bool(v) for v in np.asarray(cond).reshape(-1)]).reshape(np.shape(cond))
        return np.where(c)

    def sel(c, a, b):
        t = _truth(c)
        if isinstance(t, bool):
            return a if t else b
        return ite(t, a, b)
    r = np.frompyfunc(sel, 3, 1)(_plain(np.asarray(cond)), _plain(np.asarray(x)), _plain(np.asarray(y)))
    return _wrap(r) if isinstance(r, np.ndarray) else r


def _as01(x):
    """1 - bit (affine form 1 - b) is again a bit."""
    if isinstance(x, SymInt) and x.aff is not None:
        c0, terms = x.aff
        if c0 == 1 and len(terms) == 1 and terms[0][1] == -1:
            return Bit(core.z3_xor([terms[0][0]], const=True))
        if c0 == 0 and len(terms) == 1 and terms[0][1] == 1:
            return Bit(terms[0][0])
    return x


def ite(c: SymBool, a, b):
    """cell-level if-then-else."""
    if a is b:
        return a
    a, b = _as01(a), _as01(b)
    if isinstance(a, (SymReal, float, np.floating)) or isinstance(b, (SymReal, float, np.floating)):
        return SymReal(z3.If(c.t, core.term_of(a, 'real'), core.term_of(b, 'real')))
    if isinstance(a, (SymBool, bool)) and isinstance(b, (SymBool, bool)):
        return SymBool(z3.If(c.t, bool_term(a), bool_term(b)))
    if isinstance(a, (Bit, SymBool, bool, np.bool_)) or isinstance(b, (Bit, SymBool, bool, np.bool_)):
        ca, cb = core._conc_int(a), core._conc_int(b)
        if (ca is None or ca in (0, 1)) and (cb is None or cb in (0, 1)) \
                and not isinstance(a, SymInt) and not isinstance(b, SymInt):
            return Bit(z3.If(c.t, bool_term(a), bool_term(b)))
    if isinstance(a, (int, np.integer)) and isinstance(b, (int, np.integer)) \
            and int(a) in (0, 1) and int(b) in (0, 1):
        return Bit(z3.If(c.t, bool_term(a), bool_term(b)))
    return SymInt(z3.If(c.t, core.term_of(a, 'int'), core.term_of(b, 'int')))


def sa_zeros_like(a, dtype=None, **k):
    r = np.empty(np.shape(a), dtype=object)
    r.fill(0)
    return r.view(SA)


def _bools_as_bits(a):
    """numpy sums booleans as integers."""
    a = _plain(np.asarray(a))
    if a.dtype == object and any(isinstance(c, (SymBool, bool, np.bool_)) for c in a.reshape(-1)):
        f = np.frompyfunc(lambda c: c.as_bit() if isinstance(c, SymBool) else
                          (int(c) if isinstance(c, (bool, np.bool_)) else c), 1, 1)
        a = f(a)
    return a


def sa_sum(a, axis=None, **k):
    return _wrap(np.add.reduce(_bools_as_bits(a), axis=axis, dtype=object))


def sa_prod(a, axis=None, **k):
    return _wrap(np.multiply.reduce(_plain(np.asarray(a)), axis=axis, dtype=object))


def sa_dot(a, b, **k):
    return sym_matmul(a, b)


_FUNCS = {
    np.all: sa_all,
    np.any: sa_any,
    np.count_nonzero: sa_count_nonzero,
    np.array_equal: sa_array_equal,
    np.where: sa_where,
    np.zeros_like: sa_zeros_like,
    np.sum: sa_sum,
    np.prod: sa_prod,
    np.dot: sa_dot,
}


# --------------------------------------------------------------------------------------
# matrix product with concrete sparsity exploited

def _dense_obj(x):
    if isinstance(x, SymSparse):
        return x.dense.view(np.ndarray)
    if _sp.issparse(x):
        return x.toarray().astype(object)
    x = np.asarray(x)
    return _plain(x)


def sym_matmul(A, B):
    """A @ B where either side may be concrete (csr / ndarray) or symbolic (SA / SymSparse).
    Returns an SA (or a scalar for 1-D @ 1-D)."""
    a_sparse = _sp.issparse(A)
    b_sparse = _sp.issparse(B)
    Bd = _dense_obj(B)
    if a_sparse:
        A = A.tocsr()
        if Bd.ndim == 1:
            out = np.empty(A.shape[0], dtype=object)
            for i in range(A.shape[0]):
                acc: Any = 0
                for p in range(A.indptr[i], A.indptr[i + 1]):
                    acc = acc + int(A.data[p]) * Bd[A.indices[p]]
                out[i] = acc
            return out.view(SA)
        out = np.empty((A.shape[0], Bd.shape[1]), dtype=object)
        for i in range(A.shape[0]):
            for c in range(Bd.shape[1]):
                acc = 0
                for p in range(A.indptr[i], A.indptr[i + 1]):
                    acc = acc + int(A.data[p]) * Bd[A.indices[p], c]
                out[i, c] = acc
        return out.view(SA)
    Ad = _dense_obj(A)
    if b_sparse:
        # (Ad @ B) = (B.T @ Ad.T).T
        r = sym_matmul(B.T.tocsr(), Ad.T if Ad.ndim == 2 else Ad)
        return r.T if isinstance(r, np.ndarray) and r.ndim == 2 else r
    r = np.matmul(Ad, Bd) if (Ad.size and Bd.size) else np.zeros(
        np.matmul(np.zeros(Ad.shape), np.zeros(Bd.shape)).shape, dtype=object)
    if isinstance(r, np.ndarray):
        return (r.astype(object) if r.dtype != object else r).view(SA)
    return r


# --------------------------------------------------------------------------------------
# csr shim

class SymSparse:
    """Dense-backed stand-in for a csr_matrix holding symbolic cells (2-D)."""
    __array_priority__ = 2000
    format = 'csr'
    ndim = 2

    def __init__(self, dense):
        d = np.asarray(dense)
        if d.ndim == 1:
            d = d.reshape(1, -1)
        self.dense = as_sa(d)

    @property
    def shape(self):
        return self.dense.shape

    @property
    def dtype(self):
        return np.dtype('uint8')

    @property
    def T(self):
        return SymSparse(self.dense.T)

    def transpose(self, *a, **k):
        return self.T

    def __getitem__(self, key):
        if not isinstance(key, tuple):
            key = (key, slice(None))
        r, c = key
        d = self.dense.view(np.ndarray)
        if isinstance(r, (int, np.integer)):
            r = slice(int(r), int(r) + 1)
        if isinstance(c, (int, np.integer)):
            c = slice(int(c), int(c) + 1)
        out = d[r][:, c]
        return SymSparse(out)

    def toarray(self):
        return self.dense.copy()

    todense = toarray

    def tocsr(self, copy=False):
        return self

    def copy(self):
        return SymSparse(self.dense.copy())

    def astype(self, *a, **k):
        return self

    @property
    def data(self):
        return self.dense.reshape(-1)

    @data.setter
    def data(self, v):
        v = np.asarray(v)
        self.dense = as_sa(_plain(v).reshape(self.dense.shape))

    @property
    def nnz(self):
        return sa_count_nonzero(self.dense)

    def dot(self, other):
        return self @ other

    def __matmul__(self, other):
        r = sym_matmul(self, other)
        return SymSparse(r) if isinstance(r, np.ndarray) and r.ndim == 2 else r

    def __rmatmul__(self, other):
        r = sym_matmul(other, self)
        return SymSparse(r) if isinstance(r, np.ndarray) and r.ndim == 2 else r

    def __mul__(self, other):
        if np.isscalar(other):
            return SymSparse(self.dense * other)
        return self @ other

    def __add__(self, other):
        return SymSparse(_dense_obj(self) + _dense_obj(other))

    __radd__ = __add__

    def __sub__(self, other):
        return SymSparse(_dense_obj(self) - _dense_obj(other))


class _CsrMeta(type):
    def __instancecheck__(cls, inst):
        return isinstance(inst, (_REAL_CSR, SymSparse))


class csr_shim(metaclass=_CsrMeta):
    """Drop-in for ``scipy.sparse.csr_matrix`` as seen from panqec modules: real csr for concrete
    input, SymSparse for symbolic input; isinstance() true for both."""

    def __new__(cls, arg1, shape=None, dtype=None, copy=False, **k):
        if isinstance(arg1, SymSparse):
            return arg1
        if isinstance(arg1, np.ndarray) and arg1.dtype == object:
            c = concretize(arg1)
            if c is None:
                return SymSparse(arg1)
            arg1 = c
        elif isinstance(arg1, list) and is_symbolic(np.array(arg1, dtype=object)):
            return SymSparse(np.array(arg1, dtype=object))
        return _REAL_CSR(arg1, shape=shape, dtype=dtype, copy=copy, **k)


# --------------------------------------------------------------------------------------
# numpy allocation proxy

class NpProxy(types.ModuleType):
    """Forwards to numpy; allocation / reduction entry points return or accept SA while a symbolic
    session is active.  Installed as the module-global ``np`` of panqec modules under test."""

    def __init__(self):
        super().__init__('numpy_symx_proxy')
        self.observed = []     # (name, argument) of reductions, for observation points

    def __getattr__(self, name):
        return getattr(np, name)

    def _on(self):
        return core.active()

    def zeros(self, shape, dtype=float, **k):
        if not self._on():
            return np.zeros(shape, dtype=dtype, **k)
        a = np.empty(shape, dtype=object)
        a.fill(0 if np.issubdtype(np.dtype(dtype), np.integer) or np.dtype(dtype) == bool else 0.0)
        return a.view(SA)

    def ones(self, shape, dtype=float, **k):
        if not self._on():
            return np.ones(shape, dtype=dtype, **k)
        a = np.empty(shape, dtype=object)
        a.fill(1 if np.issubdtype(np.dtype(dtype), np.integer) or np.dtype(dtype) == bool else 1.0)
        return a.view(SA)

    def empty(self, shape, dtype=float, **k):
        return self.zeros(shape, dtype=dtype)

    def full(self, shape, fill_value, dtype=None, **k):
        if not self._on():
            return np.full(shape, fill_value, dtype=dtype, **k)
        a = np.empty(shape, dtype=object)
        a.fill(fill_value)
        return a.view(SA)

    def zeros_like(self, a, dtype=None, **k):
        if not self._on():
            return np.zeros_like(a, dtype=dtype, **k)
        return sa_zeros_like(a)

    @staticmethod
    def _as_bool_cells(a):
        """dtype=bool conversion of symbolic cells: truth values (SymBool), so that ~ is logical not."""
        out = np.empty(a.shape, dtype=object)
        flat_in, flat_out = a.reshape(-1), out.reshape(-1)
        for i, c in enumerate(flat_in):
            flat_out[i] = SymBool(bool_term(c)) if _is_sym(c) else bool(c)
        return out.view(SA)

    def array(self, obj, dtype=None, **k):
        if self._on():
            if isinstance(obj, np.ndarray) and obj.dtype == object and is_symbolic(obj):
                if dtype is bool or dtype == np.bool_:
                    return self._as_bool_cells(obj.view(np.ndarray))
                return obj.copy().view(SA)
            if isinstance(obj, (list, tuple)) and len(obj) and is_symbolic(_flatten(obj)):
                return _wrap(_obj_array(obj))
        return np.array(obj, dtype=dtype, **k)

    def asarray(self, obj, dtype=None, **k):
        if self._on() and isinstance(obj, np.ndarray) and obj.dtype == object and is_symbolic(obj):
            if dtype is bool or dtype == np.bool_:
                return self._as_bool_cells(obj.view(np.ndarray))
            return obj.view(SA)
        return self.array(obj, dtype=dtype) if self._on() else np.asarray(obj, dtype=dtype, **k)

    def _elementwise(self, f, pyf, x, *a, **k):
        """ufuncs on object-dtype containers that mix proxies and plain Python numbers (numpy would call
        x.sqrt() on a plain float and fail): applied cell by cell; pandas Series keep their index."""
        if self._on() and getattr(x, 'dtype', None) == object and not isinstance(x, SA):
            if hasattr(x, 'map') and hasattr(x, 'index'):          # pandas Series
                return x.map(pyf)
            if isinstance(x, np.ndarray):
                return np.frompyfunc(pyf, 1, 1)(x)
        return f(x, *a, **k)

    def sqrt(self, x, *a, **k):
        return self._elementwise(np.sqrt, _sqrt, x, *a, **k)

    def log(self, x, *a, **k):
        return self._elementwise(np.log, _log, x, *a, **k)

    def exp(self, x, *a, **k):
        return self._elementwise(np.exp, _exp, x, *a, **k)

    def prod(self, a, *args, **k):
        self.observed.append(('prod', a))
        return np.prod(a, *args, **k)

    def sum(self, a, *args, **k):
        self.observed.append(('sum', a))
        return np.sum(a, *args, **k)


def _flatten(obj):
    out = []

    def rec(o):
        if isinstance(o, (list, tuple)):
            for x in o:
                rec(x)
        elif isinstance(o, np.ndarray):
            out.extend(o.reshape(-1).tolist())
        else:
            out.append(o)
    rec(obj)
    return out


def _obj_array(obj):
    """np.array(nested list) with dtype=object but proper shape."""
    def shape_of(o):
        if isinstance(o, np.ndarray):
            return o.shape
        if isinstance(o, (list, tuple)):
            if not o:
                return (0,)
            return (len(o),) + shape_of(o[0])
        return ()
    shp = shape_of(obj)
    a = np.empty(shp, dtype=object)
    flat = _flatten(obj)
    a.reshape(-1)[:] = np.array(flat + [None], dtype=object)[:-1]
    return a


NP = NpProxy()


def install(*modules):
    """Inject the numpy proxy and the csr shim into panqec modules."""
    for m in modules:
        if hasattr(m, 'np'):
            m.np = NP
        if hasattr(m, 'csr_matrix'):
            m.csr_matrix = csr_shim
