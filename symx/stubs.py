"""Nondeterministic environment stubs (DESIGN.md 1.4).  Each is constrained only by the documented
contract of the thing it replaces, and is type/shape-faithful to the real API."""
from __future__ import annotations

from typing import Any, List

import numpy as np
import scipy.sparse as sp
import z3

from . import core
from .core import Bit, SymInt, SymReal, SymBool, engine, z3_xor, bool_term, term_of, HarnessError
from .arrays import SA, as_sa, concretize
from . import gf2


# ----------------------------------------------------------------------------------------------
class SymRng:
    """Stands for numpy.random.Generator (and the ``random`` module): every draw is a fresh
    symbolic value; the call log is kept on the engine path log."""

    def __init__(self, stem='u'):
        self.stem = stem
        self.draws: List[Any] = []

    def random(self, size=None):
        if size is not None:
            raise HarnessError('SymRng.random(size) not modelled')
        eng = engine()
        v = z3.Real(eng.path_name(self.stem))
        eng.pc.append(z3.And(v >= 0, v < 1))
        eng.solver.add(z3.And(v >= 0, v < 1))
        eng.model = None
        r = SymReal(v)
        self.draws.append(r)
        eng.log.append(('rng.random', v))
        return r

    def choice(self, a, size=None, **k):
        """numpy semantics: size=None -> scalar, size=1 -> array of shape (1,)."""
        eng = engine()
        items = list(a)
        v = z3.Int(eng.path_name(self.stem + 'c'))
        eng.pc.append(z3.And(v >= 0, v < len(items)))
        eng.solver.add(z3.And(v >= 0, v < len(items)))
        eng.model = None
        idx = SymInt(v)
        eng.log.append(('rng.choice', v, len(items), size))
        self.draws.append(idx)
        if all(isinstance(x, (int, np.integer)) for x in items) and items == list(range(len(items))):
            val: Any = idx
        else:
            val = items[int(idx)]
        if size is None:
            return val
        out = np.empty(size if isinstance(size, tuple) else (size,), dtype=object)
        if out.size != 1:
            raise HarnessError('SymRng.choice(size>1) not modelled')
        out.reshape(-1)[0] = val
        return out            # an ndarray, like the real Generator.choice(size=1)

    def integers(self, low, high=None, size=None, **k):
        if high is None:
            low, high = 0, low
        eng = engine()
        v = z3.Int(eng.path_name(self.stem + 'i'))
        eng.pc.append(z3.And(v >= low, v < high))
        eng.solver.add(z3.And(v >= low, v < high))
        eng.model = None
        eng.log.append(('rng.integers', v))
        return SymInt(v)


class ForbiddenRng:
    """Any use is recorded: the code touched a global / default generator although one was supplied."""

    def __init__(self, name):
        self.name = name

    def __getattr__(self, item):
        def f(*a, **k):
            engine().log.append(('forbidden-rng', self.name, item))
            raise HarnessError(f'unexpected use of {self.name}.{item}')
        return f


# ----------------------------------------------------------------------------------------------
def _rows(H):
    H = sp.csr_matrix(H)
    return H, [list(H.indices[H.indptr[i]:H.indptr[i + 1]]) for i in range(H.shape[0])]


_STUB_COUNTER = [0]


class _SolverStub:
    """Common part of the matching / OSD stubs: output bit j of decode is an uninterpreted function
    of the decoder's observable inputs, constrained by  H c = s (mod 2)  whenever s is in the image
    of H (decided per call by the solver under the path condition)."""

    kind = 'stub'

    def __init__(self, H):
        self.H, self.rows = _rows(H)
        self.m, self.n = self.H.shape
        _STUB_COUNTER[0] += 1
        # the decode function is identified by the CONTENT of the check matrix (two engines built on
        # equal matrices are the same function of their remaining inputs): purity across objects is
        # then decided by congruence
        import hashlib
        h = hashlib.sha256(repr((self.H.shape, self.H.indptr.tolist(), self.H.indices.tolist())).encode())
        self.uid = f'{self.kind}_{h.hexdigest()[:10]}'
        self.calls: List[Any] = []

    def _ufs(self, arg_sorts):
        return [z3.Function(f'{self.uid}_out{j}', *arg_sorts, z3.BoolSort()) for j in range(self.n)]

    def _solution(self, args, sorts, syndrome_terms):
        eng = engine()
        ufs = self._ufs(sorts)
        c = [f(*args) for f in ufs]
        constraint = z3.And([z3_xor([c[j] for j in row]) == s for row, s in zip(self.rows, syndrome_terms)]) \
            if self.m else z3.BoolVal(True)
        return c, constraint


class MatchStub(_SolverStub):
    """pymatching.Matching(H, spacelike_weights=w): decode(s) returns a minimum-weight c with
    H c = s.  Minimality is a clause the harness instantiates at a named competitor (min_clause)."""
    kind = 'match'

    def __init__(self, H, spacelike_weights=None, **k):
        super().__init__(H)
        self.weights = k.pop('weights', spacelike_weights) if spacelike_weights is None else spacelike_weights
        self.kwargs = k
        # documented keyword contract (pymatching 2): parallel edges -- columns with identical support --
        # are merged according to merge_strategy; the default for a check matrix is 'smallest-weight' (exact
        # minimum weight).  'keep-original' / 'replace' keep the first / last of the parallel edges only (the
        # other fault ids can never be flipped).  Any other option leaves only "a solution" as the contract.
        self.merge = k.get('merge_strategy', 'smallest-weight')
        self.exact = self.merge in ('smallest-weight', 'keep-original', 'replace') and \
            not (set(k) - {'merge_strategy'})
        cols = {}
        for j in range(self.n):
            key = tuple(i for i, row in enumerate(self.rows) if j in row)
            cols.setdefault(key, []).append(j)
        self.dropped = set()
        self.groups = {}                  # kept column -> all columns parallel to it (itself included)
        if self.merge in ('keep-original', 'replace'):
            for grp in cols.values():
                keep = grp[0] if self.merge == 'keep-original' else grp[-1]
                self.dropped |= set(grp) - {keep}
                self.groups[keep] = list(grp)
        engine().log.append(('Matching', self))

    def decode(self, z, num_neighbours=None, **k):
        eng = engine()
        s = [bool_term(x) for x in np.asarray(z).reshape(-1)]
        if len(s) != self.m:
            raise ValueError(f'syndrome of length {len(s)} for a check matrix with {self.m} rows')
        if self.weights is None:
            wargs = []
        else:
            wargs = [term_of(x, 'real') for x in np.asarray(self.weights).reshape(-1)]
            if len(wargs) != self.n:
                raise ValueError(f'{len(wargs)} weights for {self.n} columns')
        c, constraint = self._solution(wargs + s, [z3.RealSort()] * len(wargs) + [z3.BoolSort()] * self.m, s)
        eng.assume(SymBool(constraint))          # contract: a solution exists and is returned
        if self.dropped:
            eng.assume(SymBool(z3.And([z3.Not(c[j]) for j in sorted(self.dropped)])))
        out = as_sa([Bit(t) for t in c])
        self.calls.append((s, c))
        eng.log.append(('Matching.decode', self, s, c))
        return out

    def min_clause(self, call_index, competitor_bits):
        """w.c <= w.c' for a competitor c' with the same syndrome (instantiated optimality)."""
        if call_index >= len(self.calls):
            return z3.BoolVal(True)       # the engine was not called: nothing to assume
        if not self.exact:
            return z3.BoolVal(True)       # options outside the modelled contract: only "a solution"
        s, c = self.calls[call_index]
        w = [term_of(x, 'real') for x in np.asarray(self.weights).reshape(-1)]
        same = z3.And([z3_xor([competitor_bits[j] for j in row]) == si for row, si in zip(self.rows, s)])
        wc = z3.Sum([z3.If(c[j], w[j], 0) for j in range(self.n)])
        wc2 = z3.Sum([z3.If(competitor_bits[j], w[j], 0) for j in range(self.n)])
        if self.dropped:
            # minimal among the solutions on the kept edges only: the competitor is moved onto the kept
            # edges (parallel columns are identical, so the syndrome is unchanged)
            proj = {keep: z3_xor([competitor_bits[j] for j in grp]) for keep, grp in self.groups.items()}
            wc2 = z3.Sum([z3.If(proj[j], w[j], 0) for j in sorted(proj)])
        return z3.Implies(same, wc <= wc2)


class OsdStub(_SolverStub):
    """ldpc.BpOsdDecoder(H, ...): update_channel_probs(p) stores p; decode(s) writes osdw_decoding
    (a solution of H c = s, a function of (stored channel probabilities, syndrome)) and returns it.
    Buffers persist between calls."""
    kind = 'osd'

    # keyword options under which ldpc's decode is a function of (channel probabilities, syndrome) only;
    # `schedule` must be 'parallel' or 'serial' ('serial_relative' orders the bits by the reliabilities left
    # over from the previous call).  Any other option / value: the output may depend on the object's history.
    PURE_KW = {'error_rate', 'error_channel', 'max_iter', 'bp_method', 'ms_scaling_factor', 'schedule',
               'omp_thread_count', 'osd_method', 'osd_order', 'input_vector_type'}

    def __init__(self, H, error_rate=None, **k):
        super().__init__(H)
        self.kwargs = dict(k, error_rate=error_rate)
        self.pure = set(k) <= self.PURE_KW and k.get('schedule', 'parallel') in ('parallel', 'serial')
        self.n_decodes = 0
        if not self.pure:
            self.uid += '_hist'
        self.channel = [z3.RealVal(0)] * self.n if error_rate is None else \
            [term_of(error_rate, 'real')] * self.n
        self.osdw_decoding = np.zeros(self.n, dtype=int)
        self.pushed: List[Any] = []
        engine().log.append(('BpOsdDecoder', self))

    def update_channel_probs(self, probs):
        p = list(np.asarray(probs).reshape(-1))
        if len(p) != self.n:
            raise ValueError(f'channel probability vector of length {len(p)} for {self.n} columns')
        self.channel = [term_of(x, 'real') for x in p]
        self.pushed.append(list(self.channel))
        engine().log.append(('update_channel_probs', self, list(self.channel)))

    def decode(self, syndrome):
        eng = engine()
        s = [bool_term(x) for x in np.asarray(syndrome).reshape(-1)]
        if len(s) != self.m:
            raise ValueError(f'syndrome of length {len(s)} for a check matrix with {self.m} rows')
        args = list(self.channel) + s
        sorts = [z3.RealSort()] * self.n + [z3.BoolSort()] * self.m
        if not self.pure:
            # history-dependent engine options: one more argument, the state the earlier calls of THIS object
            # left behind (a fresh unknown per object and call number)
            args = args + [z3.Int(eng.path_name(f'{self.uid}_state_{self.n_decodes}'))]
            sorts = sorts + [z3.IntSort()]
        self.n_decodes += 1
        c, constraint = self._solution(args, sorts, s)
        eng.assume(SymBool(constraint))
        out = as_sa([Bit(t) for t in c])
        self.last_out = out
        # ldpc runs the OSD post-processing only when it needs to (observed with ldpc 2.4.1: a zero
        # syndrome / early BP convergence returns the decoding but leaves osdw_decoding untouched): the
        # return value is the decoding; the osdw_decoding buffer is refreshed only if OSD ran, which is an
        # arbitrary (symbolic) choice per call
        ran = z3.Bool(eng.path_name(self.uid + '_osd_ran'))
        prev = list(np.asarray(self.osdw_decoding).reshape(-1))
        self.osdw_decoding = as_sa([Bit(z3.If(ran, t, bool_term(pv))) for t, pv in zip(c, prev)])
        eng.log.append(('BpOsdDecoder.decode', self, s, c))
        return out


def validate_stub_shapes():
    """One real call per run: the stubs return objects of the type / rank / shape the real APIs do."""
    import pymatching
    import ldpc
    H = sp.csr_matrix(np.array([[1, 1, 0], [0, 1, 1]], dtype=np.uint8))
    m = pymatching.Matching(H, spacelike_weights=np.array([1.0, 2.0, 1.0]))
    r = m.decode(np.array([1, 0], dtype=np.uint8), num_neighbours=None)
    ok = isinstance(r, np.ndarray) and r.shape == (3,)
    d = ldpc.BpOsdDecoder(H, error_rate=0.1, max_iter=10, bp_method='minimum_sum', ms_scaling_factor=0.,
                          osd_method='osd_cs', osd_order=2)
    d.update_channel_probs(np.array([0.1, 0.2, 0.1]))
    r2 = d.decode(np.array([1, 0]))
    ok = ok and isinstance(d.osdw_decoding, np.ndarray) and d.osdw_decoding.shape == (3,) and \
        isinstance(r2, np.ndarray)
    g = np.random.default_rng(0)
    c1 = g.choice([0, 1, 2], size=1)
    ok = ok and isinstance(c1, np.ndarray) and c1.shape == (1,) and isinstance(g.random(), float)
    return bool(ok)
