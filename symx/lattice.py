"""Symbolic lattice locations: SymDict / SymList shadows for a code's index tables, canonical view of
operator dicts built with symbolic keys, and path substitution (DESIGN.md 1.3)."""
from __future__ import annotations

from typing import Any, Dict, List, Tuple

import numpy as np
import z3

from . import core
from .core import SymBool, SymInt, Bit, HarnessError, engine, z3_and, z3_or, is_symbolic


def coord_term(c):
    if isinstance(c, SymInt):
        return c.t
    if isinstance(c, Bit):
        return z3.If(c.t, z3.IntVal(1), z3.IntVal(0))
    if isinstance(c, (int, np.integer)):
        return z3.IntVal(int(c))
    raise HarnessError(f'coordinate of unsupported type {type(c)}')


def tuple_eq(k1, k2):
    """z3 Bool: coordinate tuples equal."""
    if len(k1) != len(k2):
        return z3.BoolVal(False)
    return z3_and([z3.simplify(coord_term(a) == coord_term(b)) for a, b in zip(k1, k2)])


def _is_loc(key):
    return isinstance(key, tuple) and any(isinstance(c, (SymInt, Bit)) for c in key)


class SymDict(dict):
    """dict {coordinate tuple -> int} whose membership test / lookup accept symbolic tuples."""

    def __init__(self, d):
        super().__init__(d)
        self._items = list(d.items())
        # coordinate tuples of different arity may coexist (XCube: cubes (x,y,z), faces (axis,x,y,z))
        self._by_first: Dict[Tuple[int, int], List[Tuple[tuple, int]]] = {}
        self._tm: Dict[int, Any] = {}
        self._ti: Dict[int, Any] = {}
        self._cache: Dict[tuple, Any] = {}
        self._keep: List[Any] = []
        for k, v in self._items:
            self._by_first.setdefault((len(k), k[0]), []).append((k, v))

    def _placeholders(self, dim):
        return [z3.Int(f'__loc{dim}_{d}') for d in range(dim)]

    def _member_template(self, dim):
        t = self._tm.get(dim)
        if t is None:
            ts = self._placeholders(dim)
            alts = []
            # group by first coordinate to keep the formula small
            for (dm, x0), lst in self._by_first.items():
                if dm != dim:
                    continue
                inner = z3_or([z3_and([ts[d] == k[d] for d in range(1, dim)]) for k, _ in lst])
                alts.append(z3.And(ts[0] == x0, inner))
            t = z3_or(alts)
            self._tm[dim] = t
        return t

    def _index_template(self, dim):
        t = self._ti.get(dim)
        if t is None:
            ts = self._placeholders(dim)
            t = z3.IntVal(-1)
            for k, v in self._items:
                if len(k) != dim:
                    continue
                t = z3.If(z3_and([ts[d] == k[d] for d in range(dim)]), z3.IntVal(v), t)
            self._ti[dim] = t
        return t

    def member_term(self, key):
        dim = len(key)
        ts = [coord_term(c) for c in key]
        ck = ('m',) + tuple(t.get_id() for t in ts)
        r = self._cache.get(ck)
        if r is None:
            r = z3.substitute(self._member_template(dim), *zip(self._placeholders(dim), ts))
            self._cache[ck] = r
            self._keep.append(ts)
        return r

    def index_term(self, key):
        dim = len(key)
        ts = [coord_term(c) for c in key]
        ck = ('i',) + tuple(t.get_id() for t in ts)
        r = self._cache.get(ck)
        if r is None:
            r = z3.substitute(self._index_template(dim), *zip(self._placeholders(dim), ts))
            self._cache[ck] = r
            self._keep.append(ts)
        return r

    def __contains__(self, key):
        if _is_loc(key):
            return SymBool(self.member_term(key))
        return dict.__contains__(self, key)

    def __getitem__(self, key):
        if _is_loc(key):
            if not SymBool(self.member_term(key)):
                raise KeyError(key)
            return SymInt(self.index_term(key))
        return dict.__getitem__(self, key)

    def get(self, key, default=None):
        if _is_loc(key):
            if not SymBool(self.member_term(key)):
                return default
            return SymInt(self.index_term(key))
        return dict.get(self, key, default)


class SymList(list):
    """list of coordinate tuples whose ``in`` accepts symbolic tuples."""

    def __init__(self, lst):
        super().__init__(lst)
        self._d = SymDict({k: i for i, k in enumerate(lst)})

    def __contains__(self, key):
        if _is_loc(key):
            return SymBool(self._d.member_term(key))
        return list.__contains__(self, key)

    def index(self, key, *a):
        if _is_loc(key):
            return self._d[key]
        return list.index(self, key, *a)


def symbolize(code):
    """Replace the concrete index tables of a code object (already built by the real code) by the
    symbolic-aware shadows.  Idempotent."""
    qi, si = code.qubit_index, code.stabilizer_index
    qc, sc = code.qubit_coordinates, code.stabilizer_coordinates
    if not isinstance(qi, SymDict):
        code._qubit_index = SymDict(qi)
    if not isinstance(si, SymDict):
        code._stabilizer_index = SymDict(si)
    if not isinstance(qc, SymList):
        code._qubit_coordinates = SymList(qc)
    if not isinstance(sc, SymList):
        code._stabilizer_coordinates = SymList(sc)
    return code


def sym_location(eng, stem, coords: List[tuple], index: SymDict):
    """Fresh symbolic location constrained to be one of the given coordinates."""
    dim = len(coords[0])
    vs = []
    for d in range(dim):
        lo = min(c[d] for c in coords)
        hi = max(c[d] for c in coords)
        vs.append(eng.integer(f'{stem}{d}', lo, hi))
    loc = tuple(vs)
    eng.assume_base(index.member_term(loc))
    return loc


def canonical(op: dict):
    """The operator dict as a list of (key, letter) with dict semantics restored for keys whose
    hashes differ although they may be equal (symbolic vs concrete cells): later assignment wins,
    equality decided by forking on the path."""
    out: List[List[Any]] = []
    for k, v in op.items():
        merged = False
        for ent in out:
            t = z3.simplify(tuple_eq(ent[0], k))
            if z3.is_false(t):
                continue
            if z3.is_true(t) or engine().branch(t):
                ent[1] = v
                merged = True
                break
        if not merged:
            out.append([k, v])
    return [(tuple(k), v) for k, v in out]


def key_terms(key):
    return [coord_term(c) for c in key]


def substitute_path(pc, entries, src_vars, dst_vars):
    """Rename the location variables in a path (condition + operator entries)."""
    pairs = list(zip(src_vars, dst_vars))
    pc2 = [z3.substitute(t, *pairs) for t in pc]
    ent2 = [([z3.substitute(t, *pairs) for t in ks], v) for ks, v in entries]
    return pc2, ent2


def anticommute(l1: str, l2: str) -> bool:
    return l1 != l2 and l1 in 'XYZ' and l2 in 'XYZ'


def validate_paths_at(col, label, paths, loc_vars, coords, real_fn, conv, extra_sub=(), cap=20000, impure_oid=None):
    """Translation validation of an exploration over a symbolic location: every concrete location of
    `coords` (beyond `cap` path evaluations: a deterministic sample) is substituted into the path conditions;
    exactly one path must hold there, and conv(path value, substitution) must equal real_fn(location) -- the
    REAL function on an unshadowed object (same exception type if either raises).  A mismatch means the
    encoding misrepresents the code: HarnessError (exit 2), never a verdict."""
    import random
    from .core import HarnessError, z3_and
    locs = list(coords)
    if len(locs) * max(1, len(paths)) > cap:
        locs = random.Random(len(locs)).sample(locs, max(8, cap // max(1, len(paths))))
    n_ok = 0
    for loc in locs:
        sub = [(v, z3.IntVal(int(x))) for v, x in zip(loc_vars, loc)] + list(extra_sub)
        hit = []
        for p in paths:
            t = z3.simplify(z3.substitute(z3_and(list(p.pc)), *sub))
            if z3.is_true(t):
                hit.append(p)
            elif not z3.is_false(t):
                hit = None          # path condition depends on other symbols (draws, states): not comparable
                break
        if hit is None:
            continue
        if len(hit) != 1:
            raise HarnessError(f'{label}: {len(hit)} paths hold at location {tuple(loc)} (expected exactly 1)')
        p = hit[0]
        try:
            want, wexc = real_fn(tuple(loc)), None
        except Exception as e:          # noqa
            want, wexc = None, e
        if p.exc is not None or wexc is not None:
            if type(p.exc) is not type(wexc):
                raise HarnessError(f'{label}: at {tuple(loc)} the symbolic path ends with {type(p.exc).__name__}, '
                                   f'the real call with {type(wexc).__name__}: {wexc}')
            n_ok += 1
            continue
        got = conv(p.value, sub)
        if got != want and impure_oid is not None:
            # before blaming the encoding: is the REAL function a function of the location at all?
            try:
                again = real_fn(tuple(loc))
            except Exception as e:      # noqa
                again = f'{type(e).__name__}: {e}'
            if again != want:
                col.record(impure_oid, 'sat', 0, True, dict(impure=True, location=[int(x) for x in loc]),
                           f'two calls of the real function at {tuple(loc)} return {str(want)[:200]} and {str(again)[:200]}')
                return n_ok
        if got != want:
            raise HarnessError(f'{label}: at {tuple(loc)} the symbolic run gives {str(got)[:300]}, the real one '
                               f'{str(want)[:300]}')
        n_ok += 1
    col.stats['encoding_validated_locations'] = col.stats.get('encoding_validated_locations', 0) + n_ok
    return n_ok


def concretise(x, sub):
    """Python value of a proxy / z3 term / container after substituting `sub` (pairs)."""
    from .core import SymInt, Bit, SymBool, SymReal
    if isinstance(x, (SymInt, Bit, SymBool, SymReal)):
        x = x.t
    if isinstance(x, z3.ExprRef):
        v = z3.simplify(z3.substitute(x, *sub)) if sub else z3.simplify(x)
        if z3.is_true(v):
            return True
        if z3.is_false(v):
            return False
        if z3.is_int_value(v):
            return v.as_long()
        if z3.is_rational_value(v):
            return float(v.numerator_as_long()) / float(v.denominator_as_long())
        raise ValueError(f'not ground after substitution: {v}')
    if isinstance(x, dict):
        return {concretise(k, sub): concretise(v, sub) for k, v in x.items()}
    if isinstance(x, (list, tuple)):
        return type(x)(concretise(v, sub) for v in x)
    if isinstance(x, np.ndarray):
        return [concretise(v, sub) for v in x.reshape(-1).tolist()]
    if isinstance(x, (np.integer,)):
        return int(x)
    if isinstance(x, (np.floating,)):
        return float(x)
    if isinstance(x, np.bool_):
        return bool(x)
    return x
