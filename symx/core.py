"""symx core: proxy-based symbolic execution of real Python code on top of z3.

Scalars
-------
SymBool  z3 Bool; ``bool()`` forks the path.
Bit      z3 Bool that behaves like the integer 0/1 (cells of binary vectors).
SymInt   z3 Int (Python int semantics); optionally carries a *bit-affine form*
         c0 + sum c_j*b_j over Boolean terms so that ``% 2`` becomes an XOR chain.
SymReal  z3 Real (floats modelled as reals; see DESIGN.md 1.1).

Engine.explore(fn) runs fn repeatedly, once per feasible path (decision-prefix
re-execution, feasibility decided by z3).
"""
from __future__ import annotations

import itertools
import sys
import time
from fractions import Fraction
from typing import Any, Callable, Dict, List, Optional, Tuple

import numpy as np
import z3


class Abort(BaseException):
    """Path dropped (infeasible assumption / cap).  BaseException so that the code under test's
    ``except Exception`` cannot swallow it."""


class Inconclusive(BaseException):
    """A cap was hit or the solver answered unknown: the obligation is NOT discharged."""


class HarnessError(Exception):
    """Internal failure of the machinery (exit code 2)."""


_ENGINE: Optional['Engine'] = None


def engine() -> 'Engine':
    if _ENGINE is None:
        raise HarnessError('no active symbolic session')
    return _ENGINE


def active() -> bool:
    return _ENGINE is not None


# --------------------------------------------------------------------------------------
# helpers

def _is_sym(x) -> bool:
    return isinstance(x, (SymBool, Bit, SymInt, SymReal))


def is_symbolic(x) -> bool:
    if _is_sym(x):
        return True
    if isinstance(x, (tuple, list)):
        return any(is_symbolic(c) for c in x)
    if isinstance(x, np.ndarray) and x.dtype == object:
        return any(_is_sym(c) for c in x.flat)
    return False


def _conc_int(x) -> Optional[int]:
    """Concrete python int of an int-like concrete value, else None."""
    if isinstance(x, (bool, np.bool_)):
        return int(x)
    if isinstance(x, (int, np.integer)):
        return int(x)
    if isinstance(x, (float, np.floating)) and float(x).is_integer():
        return None
    return None


def _conc_num(x):
    if isinstance(x, (bool, np.bool_, int, np.integer)):
        return int(x)
    if isinstance(x, (float, np.floating)):
        return float(x)
    if isinstance(x, Fraction):
        return x
    return None


def _real_val(x):
    """z3 Real term for a concrete number."""
    if isinstance(x, (bool, np.bool_, int, np.integer)):
        return z3.RealVal(int(x))
    if isinstance(x, Fraction):
        return z3.RealVal(str(x))
    if isinstance(x, (float, np.floating)):
        return z3.RealVal(str(Fraction(float(x))))
    raise HarnessError(f'cannot make a real of {x!r}')


def z3_and(ts):
    ts = [t for t in ts if not z3.is_true(t)]
    if not ts:
        return z3.BoolVal(True)
    if len(ts) == 1:
        return ts[0]
    return z3.And(*ts)


def z3_or(ts):
    ts = [t for t in ts if not z3.is_false(t)]
    if not ts:
        return z3.BoolVal(False)
    if len(ts) == 1:
        return ts[0]
    return z3.Or(*ts)


# GF(2)-linear normal form of Boolean terms: _LIN[ast id] = (const, frozenset(var ids)).  XOR of
# linear terms is normalised algebraically (duplicates cancel) before a z3 term is built.
_LIN: Dict[int, Tuple[int, frozenset]] = {}
_LIN_VARS: Dict[int, Any] = {}
_LIN_KEEP: List[Any] = []


def _lin_of(t):
    k = t.get_id()
    r = _LIN.get(k)
    if r is not None:
        return r
    if z3.is_true(t):
        return (1, frozenset())
    if z3.is_false(t):
        return (0, frozenset())
    if z3.is_const(t) and t.decl().kind() == z3.Z3_OP_UNINTERPRETED:
        _LIN_VARS[k] = t
        r = (0, frozenset((k,)))
        _LIN[k] = r
        _LIN_KEEP.append(t)
        return r
    if z3.is_not(t):
        r0 = _lin_of(t.arg(0))
        if r0 is not None:
            r = (1 - r0[0], r0[1])
            _LIN[k] = r
            _LIN_KEEP.append(t)
            return r
    return None


def _xor_tree(ts):
    ts = list(ts)
    while len(ts) > 1:
        nxt = []
        for i in range(0, len(ts) - 1, 2):
            nxt.append(z3.Xor(ts[i], ts[i + 1]))
        if len(ts) % 2:
            nxt.append(ts[-1])
        ts = nxt
    return ts[0]


def z3_xor(ts, const=False):
    """XOR of Boolean terms, xor a constant.  Terms with a known GF(2)-linear form are combined
    algebraically (x ^ x = 0); the rest is chained as a balanced tree."""
    c = 1 if const else 0
    acc: set = set()
    rest = []
    for t in ts:
        l = _lin_of(t)
        if l is None:
            rest.append(t)
        else:
            c ^= l[0]
            acc ^= l[1]
    parts = []
    if acc:
        vs = [_LIN_VARS[k] for k in sorted(acc)]
        lt = _xor_tree(vs)
        if len(vs) > 1:
            _LIN[lt.get_id()] = (0, frozenset(acc))
            _LIN_KEEP.append(lt)
        parts.append(lt)
    parts += rest
    if not parts:
        return z3.BoolVal(bool(c))
    r = _xor_tree(parts)
    if c:
        r0 = r
        r = z3.Not(r0)
        if not rest:
            _LIN[r.get_id()] = (1, frozenset(acc))
            _LIN_KEEP.append(r)
    return r


# --------------------------------------------------------------------------------------
# SymBool

class SymBool:
    __slots__ = ('t',)
    __array_priority__ = 1000

    def __init__(self, t):
        self.t = t

    def __bool__(self):
        return engine().branch(self.t)

    def __invert__(self):
        return SymBool(z3.Not(self.t))

    def _coerce(self, o):
        if isinstance(o, SymBool):
            return o.t
        if isinstance(o, Bit):
            return o.t
        if isinstance(o, (bool, np.bool_)):
            return z3.BoolVal(bool(o))
        if isinstance(o, (int, np.integer)) and int(o) in (0, 1):
            return z3.BoolVal(bool(o))
        return None

    def __and__(self, o):
        if isinstance(o, np.ndarray):
            return NotImplemented
        c = self._coerce(o)
        if c is None:
            return NotImplemented
        return SymBool(z3.And(self.t, c))
    __rand__ = __and__

    def __or__(self, o):
        if isinstance(o, np.ndarray):
            return NotImplemented
        c = self._coerce(o)
        if c is None:
            return NotImplemented
        return SymBool(z3.Or(self.t, c))
    __ror__ = __or__

    def __xor__(self, o):
        if isinstance(o, np.ndarray):
            return NotImplemented
        c = self._coerce(o)
        if c is None:
            return NotImplemented
        return SymBool(z3.Xor(self.t, c))
    __rxor__ = __xor__

    def __eq__(self, o):
        if isinstance(o, np.ndarray):
            return NotImplemented
        c = self._coerce(o)
        if c is None:
            return NotImplemented
        return SymBool(self.t == c)

    def __ne__(self, o):
        if isinstance(o, np.ndarray):
            return NotImplemented
        c = self._coerce(o)
        if c is None:
            return NotImplemented
        return SymBool(z3.Xor(self.t, c))

    __hash__ = None  # type: ignore

    # arithmetic use of a boolean (numpy bool * number): value 0/1
    def as_bit(self):
        return Bit(self.t)

    def __mul__(self, o):
        if isinstance(o, np.ndarray):
            return NotImplemented
        return self.as_bit() * o
    __rmul__ = __mul__

    def __add__(self, o):
        # python semantics (builtin sum over flags): True + 1 == 2.  bool + bool is ambiguous (numpy
        # arrays OR them, python adds them) and must be handled at the call site
        if isinstance(o, (SymBool, bool, np.bool_)):
            raise HarnessError('SymBool + bool is ambiguous (numpy OR vs python int add); '
                               'handle at the call site')
        if isinstance(o, np.ndarray):
            return NotImplemented
        return self.as_bit() + o
    __radd__ = __add__

    def __int__(self):
        return int(self.as_bit())

    def __index__(self):
        return int(self.as_bit())

    def __repr__(self):
        return f'SymBool({self.t})'


# --------------------------------------------------------------------------------------
# Bit  (integer 0/1 backed by a z3 Bool)

class Bit:
    __slots__ = ('t',)
    __array_priority__ = 1000

    def __init__(self, t):
        self.t = t

    # -- conversions
    def as_int(self) -> 'SymInt':
        return SymInt(None, aff=(0, ((self.t, 1),)))

    def __bool__(self):
        return engine().branch(self.t)

    def __int__(self):
        return 1 if engine().branch(self.t) else 0

    __index__ = __int__

    def __hash__(self):
        return hash(int(self))      # cells of binary vectors used as dict keys: realise (2 values)

    def __repr__(self):
        return f'Bit({self.t})'

    def __str__(self):
        # used by ''.join(map(str, bvector)) -> realise
        return str(int(self))

    def __format__(self, spec):
        return format(int(self), spec)

    # -- arithmetic
    def __add__(self, o):
        if isinstance(o, np.ndarray):
            return NotImplemented
        return self.as_int() + o

    def __radd__(self, o):
        if isinstance(o, np.ndarray):
            return NotImplemented
        return self.as_int() + o

    def __sub__(self, o):
        if isinstance(o, np.ndarray):
            return NotImplemented
        return self.as_int() - o

    def __rsub__(self, o):
        if isinstance(o, np.ndarray):
            return NotImplemented
        return o - self.as_int()

    def __neg__(self):
        return -self.as_int()

    def __mul__(self, o):
        if isinstance(o, np.ndarray):
            return NotImplemented
        if isinstance(o, SymBool):
            return Bit(z3.And(self.t, o.t))
        if isinstance(o, Bit):
            return Bit(z3.And(self.t, o.t))
        c = _conc_int(o)
        if c is not None:
            if c == 0:
                return 0
            if c == 1:
                return self
            return self.as_int() * c
        if isinstance(o, SymInt):
            return self.as_int() * o
        if isinstance(o, SymReal):
            return SymReal(z3.If(self.t, o.t, z3.RealVal(0)))
        if isinstance(o, (float, np.floating, Fraction)):
            return SymReal(z3.If(self.t, _real_val(o), z3.RealVal(0)))
        return NotImplemented
    __rmul__ = __mul__

    def __mod__(self, o):
        if isinstance(o, np.ndarray):
            return NotImplemented
        c = _conc_int(o)
        if c is not None and c >= 2:
            return self
        return self.as_int() % o

    def __floordiv__(self, o):
        if isinstance(o, np.ndarray):
            return NotImplemented
        return self.as_int() // o

    def __truediv__(self, o):
        if isinstance(o, np.ndarray):
            return NotImplemented
        return SymReal(z3.If(self.t, z3.RealVal(1), z3.RealVal(0))) / o

    def __xor__(self, o):
        if isinstance(o, np.ndarray):
            return NotImplemented
        if isinstance(o, (Bit, SymBool)):
            return Bit(z3_xor([self.t, o.t]))
        c = _conc_int(o)
        if c in (0, 1):
            return Bit(z3_xor([self.t], const=True)) if c else self
        return NotImplemented
    __rxor__ = __xor__

    def __and__(self, o):
        if isinstance(o, np.ndarray):
            return NotImplemented
        if isinstance(o, (Bit, SymBool)):
            return Bit(z3.And(self.t, o.t))
        c = _conc_int(o)
        if c is not None:
            return self if c & 1 else 0
        return NotImplemented
    __rand__ = __and__

    def __or__(self, o):
        if isinstance(o, np.ndarray):
            return NotImplemented
        if isinstance(o, (Bit, SymBool)):
            return Bit(z3.Or(self.t, o.t))
        c = _conc_int(o)
        if c in (0, 1):
            return 1 if c else self
        return NotImplemented
    __ror__ = __or__

    def __invert__(self):
        raise HarnessError('~Bit: integer bitwise not of a 0/1 cell is not modelled')

    # -- comparisons
    def __eq__(self, o):
        if isinstance(o, np.ndarray):
            return NotImplemented
        if isinstance(o, (Bit, SymBool)):
            return SymBool(self.t == o.t)
        c = _conc_num(o)
        if c is not None:
            if c == 0:
                return SymBool(z3.Not(self.t))
            if c == 1:
                return SymBool(self.t)
            return SymBool(z3.BoolVal(False))
        if isinstance(o, (SymInt, SymReal)):
            return self.as_int() == o
        if isinstance(o, str):
            return False
        return NotImplemented

    def __ne__(self, o):
        if isinstance(o, np.ndarray):
            return NotImplemented
        r = self.__eq__(o)
        if r is NotImplemented:
            return r
        if isinstance(r, bool):
            return not r
        return SymBool(z3.Not(r.t))

    def __lt__(self, o):
        if isinstance(o, np.ndarray):
            return NotImplemented
        return self.as_int() < o

    def __le__(self, o):
        if isinstance(o, np.ndarray):
            return NotImplemented
        return self.as_int() <= o

    def __gt__(self, o):
        if isinstance(o, np.ndarray):
            return NotImplemented
        return self.as_int() > o

    def __ge__(self, o):
        if isinstance(o, np.ndarray):
            return NotImplemented
        return self.as_int() >= o


_SYM_HASH = 0x51594D58


# --------------------------------------------------------------------------------------
# SymInt

def _aff_add(a, b, sb=1):
    """a + sb*b for affine forms (c0, ((term, coeff), ...))."""
    c0 = a[0] + sb * b[0]
    d: Dict[int, List] = {}
    for t, c in a[1]:
        d[t.get_id()] = [t, c]
    for t, c in b[1]:
        k = t.get_id()
        if k in d:
            d[k][1] += sb * c
        else:
            d[k] = [t, sb * c]
    return (c0, tuple((t, c) for t, c in d.values() if c != 0))


class SymInt:
    __slots__ = ('_t', 'aff')
    __array_priority__ = 1000

    def __init__(self, t, aff=None):
        self._t = t
        self.aff = aff

    @property
    def t(self):
        if self._t is None:
            c0, terms = self.aff
            parts = [z3.If(b, z3.IntVal(c), z3.IntVal(0)) for b, c in terms]
            if c0 or not parts:
                parts.append(z3.IntVal(c0))
            self._t = parts[0] if len(parts) == 1 else z3.Sum(parts)
        return self._t

    @staticmethod
    def lift(o) -> Optional['SymInt']:
        if isinstance(o, SymInt):
            return o
        if isinstance(o, Bit):
            return o.as_int()
        if isinstance(o, SymBool):
            return o.as_bit().as_int()
        c = _conc_int(o)
        if c is not None:
            return SymInt(z3.IntVal(c), aff=(c, ()))
        return None

    def __repr__(self):
        return f'SymInt({self.t})'

    def __hash__(self):
        eng = engine()
        if eng.hash_mode == 'realise':
            return hash(int(self))
        if eng.realise_sites:
            f = sys._getframe(1)
            if (f.f_code.co_filename, f.f_lineno) in eng.realise_sites:
                return hash(int(self))
        return _SYM_HASH

    def __bool__(self):
        return engine().branch(self.t != 0)

    def __int__(self):
        return engine().realise_int(self.t)

    __index__ = __int__

    def __str__(self):
        if engine().format_mode == 'placeholder':
            return '<sym-int>'
        return str(int(self))

    def __format__(self, spec):
        if engine().format_mode == 'placeholder':
            return '<sym-int>'
        return format(int(self), spec)

    def __float__(self):
        return float(int(self))

    # -- arithmetic
    def _bin(self, o, op, rev=False):
        if isinstance(o, np.ndarray):
            return NotImplemented
        if isinstance(o, SymReal) or isinstance(o, (float, np.floating, Fraction)):
            me = SymReal(z3.ToReal(self.t))
            return getattr(me, op)(o) if not rev else getattr(SymReal.lift(o), op)(me)
        return None

    def __add__(self, o):
        r = self._bin(o, '__add__')
        if r is not None:
            return r
        b = SymInt.lift(o)
        if b is None:
            return NotImplemented
        if self.aff is not None and b.aff is not None:
            return SymInt(None, aff=_aff_add(self.aff, b.aff))
        return SymInt(self.t + b.t)
    __radd__ = __add__

    def __sub__(self, o):
        r = self._bin(o, '__sub__')
        if r is not None:
            return r
        b = SymInt.lift(o)
        if b is None:
            return NotImplemented
        if self.aff is not None and b.aff is not None:
            return SymInt(None, aff=_aff_add(self.aff, b.aff, -1))
        return SymInt(self.t - b.t)

    def __rsub__(self, o):
        r = self._bin(o, '__sub__', rev=True)
        if r is not None:
            return r
        b = SymInt.lift(o)
        if b is None:
            return NotImplemented
        return b - self

    def __neg__(self):
        if self.aff is not None:
            return SymInt(None, aff=(-self.aff[0], tuple((t, -c) for t, c in self.aff[1])))
        return SymInt(-self.t)

    def __pos__(self):
        return self

    def __abs__(self):
        return SymInt(z3.If(self.t >= 0, self.t, -self.t))

    def __mul__(self, o):
        r = self._bin(o, '__mul__')
        if r is not None:
            return r
        if isinstance(o, (Bit, SymBool)):
            if self.aff is not None and len(self.aff[1]) <= 8:
                c0, terms = self.aff
                new = [(z3.And(t, o.t), c) for t, c in terms]
                if c0:
                    new.append((o.t, c0))
                return SymInt(None, aff=_aff_add((0, ()), (0, tuple(new))))
            return SymInt(z3.If(o.t, self.t, z3.IntVal(0)))
        c = _conc_int(o)
        if c is not None:
            if self.aff is not None:
                if c == 0:
                    return 0
                return SymInt(None, aff=(self.aff[0] * c, tuple((t, k * c) for t, k in self.aff[1])))
            return SymInt(self.t * c)
        if isinstance(o, SymInt):
            if o.aff is not None and not o.aff[1]:
                return self * o.aff[0]
            if self.aff is not None and not self.aff[1]:
                return o * self.aff[0]
            return SymInt(self.t * o.t)
        return NotImplemented
    __rmul__ = __mul__

    def __mod__(self, o):
        if isinstance(o, np.ndarray):
            return NotImplemented
        c = _conc_int(o)
        if c is not None:
            if c == 2 and self.aff is not None:
                c0, terms = self.aff
                odd = [t for t, k in terms if k % 2]
                if not odd:
                    return c0 % 2
                return Bit(z3_xor(odd, const=bool(c0 % 2)))
            if c > 0:
                return SymInt(self.t % c)      # z3 mod with positive divisor == python %
            if c < 0:
                # python: result has sign of divisor
                m = self.t % (-c)
                return SymInt(z3.If(m == 0, m, m + c))
            raise ZeroDivisionError('integer modulo by zero')
        b = SymInt.lift(o)
        if b is None:
            return NotImplemented
        if engine().branch(b.t == 0):
            raise ZeroDivisionError('integer modulo by zero')
        if engine().branch(b.t > 0):
            return SymInt(self.t % b.t)
        m = self.t % (-b.t)
        return SymInt(z3.If(m == 0, m, m + b.t))

    def __rmod__(self, o):
        b = SymInt.lift(o)
        if b is None:
            return NotImplemented
        return b % self

    def __floordiv__(self, o):
        if isinstance(o, np.ndarray):
            return NotImplemented
        if isinstance(o, (SymReal, float, np.floating)):
            raise HarnessError('float floor division not modelled')
        b = SymInt.lift(o)
        if b is None:
            return NotImplemented
        c = _conc_int(o)
        if c is not None and c > 0:
            return SymInt(self.t / c)          # z3 Int div, positive divisor == floor
        if engine().branch(b.t == 0):
            raise ZeroDivisionError('integer division or modulo by zero')
        if engine().branch(b.t > 0):
            return SymInt(self.t / b.t)
        # negative divisor: floor(a/b) = floor(-a / -b)
        return SymInt((-self.t) / (-b.t))

    def __rfloordiv__(self, o):
        b = SymInt.lift(o)
        if b is None:
            return NotImplemented
        return b // self

    def __truediv__(self, o):
        if isinstance(o, np.ndarray):
            return NotImplemented
        return SymReal(z3.ToReal(self.t)) / o

    def __rtruediv__(self, o):
        if isinstance(o, np.ndarray):
            return NotImplemented
        return SymReal.lift(o) / SymReal(z3.ToReal(self.t))

    def __divmod__(self, o):
        return (self // o, self % o)

    # -- comparisons
    def _pb(self, o, op):
        """Pseudo-Boolean encoding of (bit-affine form) <op> constant."""
        c = _conc_int(o)
        if c is None or self.aff is None or not self.aff[1] or len(self.aff[1]) < 3:
            return None
        c0, terms = self.aff
        if any(k <= 0 for _, k in terms):
            return None
        args = [(t, k) for t, k in terms]
        k = c - c0
        if op == 'le':
            return z3.BoolVal(False) if k < 0 else z3.PbLe(args, k)
        if op == 'ge':
            return z3.BoolVal(True) if k <= 0 else z3.PbGe(args, k)
        if op == 'eq':
            return z3.BoolVal(False) if k < 0 else z3.PbEq(args, k)
        return None

    def _cmp(self, o, f):
        if isinstance(o, np.ndarray):
            return NotImplemented
        if isinstance(o, SymReal) or isinstance(o, (float, np.floating, Fraction)):
            return f(z3.ToReal(self.t), SymReal.lift(o).t)
        b = SymInt.lift(o)
        if b is None:
            return None
        return f(self.t, b.t)

    def __eq__(self, o):
        pb = self._pb(o, 'eq')
        if pb is not None:
            return SymBool(pb)
        r = self._cmp(o, lambda a, b: a == b)
        if r is NotImplemented:
            return r
        if r is None:
            return False if isinstance(o, (str, type(None), tuple)) else NotImplemented
        return SymBool(r)

    def __ne__(self, o):
        pb = self._pb(o, 'eq')
        if pb is not None:
            return SymBool(z3.Not(pb))
        r = self._cmp(o, lambda a, b: a != b)
        if r is NotImplemented:
            return r
        if r is None:
            return True if isinstance(o, (str, type(None), tuple)) else NotImplemented
        return SymBool(r)

    def __lt__(self, o):
        c = _conc_int(o)
        pb = self._pb(c - 1, 'le') if c is not None else None
        if pb is not None:
            return SymBool(pb)
        r = self._cmp(o, lambda a, b: a < b)
        return r if r is NotImplemented or r is None else SymBool(r)

    def __le__(self, o):
        pb = self._pb(o, 'le')
        if pb is not None:
            return SymBool(pb)
        r = self._cmp(o, lambda a, b: a <= b)
        return r if r is NotImplemented or r is None else SymBool(r)

    def __gt__(self, o):
        c = _conc_int(o)
        pb = self._pb(c + 1, 'ge') if c is not None else None
        if pb is not None:
            return SymBool(pb)
        r = self._cmp(o, lambda a, b: a > b)
        return r if r is NotImplemented or r is None else SymBool(r)

    def __ge__(self, o):
        pb = self._pb(o, 'ge')
        if pb is not None:
            return SymBool(pb)
        r = self._cmp(o, lambda a, b: a >= b)
        return r if r is NotImplemented or r is None else SymBool(r)


# --------------------------------------------------------------------------------------
# SymReal

_UF: Dict[str, Any] = {}


def uf(name):
    if name not in _UF:
        _UF[name] = z3.Function(name, z3.RealSort(), z3.RealSort())
    return _UF[name]


class SymReal:
    __slots__ = ('t',)
    __array_priority__ = 1000

    def __init__(self, t):
        self.t = t

    @staticmethod
    def lift(o) -> Optional['SymReal']:
        if isinstance(o, SymReal):
            return o
        if isinstance(o, SymInt):
            return SymReal(z3.ToReal(o.t))
        if isinstance(o, (Bit, SymBool)):
            return SymReal(z3.If(o.t, z3.RealVal(1), z3.RealVal(0)))
        if _conc_num(o) is not None:
            return SymReal(_real_val(o))
        return None

    def __repr__(self):
        return f'SymReal({self.t})'

    def __hash__(self):
        return _SYM_HASH

    def __bool__(self):
        return engine().branch(self.t != 0)

    def __float__(self):
        raise HarnessError('float() of a symbolic real: realisation of reals is not supported')

    def __format__(self, spec):
        if engine().format_mode == 'placeholder':
            return '<sym-real>'
        raise HarnessError('format() of a symbolic real (set format_mode="placeholder" if it is logging only)')

    def __str__(self):
        return '<sym-real>'

    def _b(self, o):
        if isinstance(o, np.ndarray):
            return NotImplemented
        r = SymReal.lift(o)
        return NotImplemented if r is None else r

    def __add__(self, o):
        b = self._b(o)
        return b if b is NotImplemented else SymReal(self.t + b.t)
    __radd__ = __add__

    def __sub__(self, o):
        b = self._b(o)
        return b if b is NotImplemented else SymReal(self.t - b.t)

    def __rsub__(self, o):
        b = self._b(o)
        return b if b is NotImplemented else SymReal(b.t - self.t)

    def __mul__(self, o):
        if isinstance(o, (Bit, SymBool)):
            return SymReal(z3.If(o.t, self.t, z3.RealVal(0)))
        b = self._b(o)
        return b if b is NotImplemented else SymReal(self.t * b.t)
    __rmul__ = __mul__

    def __truediv__(self, o):
        b = self._b(o)
        if b is NotImplemented:
            return b
        engine().note_division(b.t)
        return SymReal(self.t / b.t)

    def __rtruediv__(self, o):
        b = self._b(o)
        if b is NotImplemented:
            return b
        engine().note_division(self.t)
        return SymReal(b.t / self.t)

    def __neg__(self):
        return SymReal(-self.t)

    def __pos__(self):
        return self

    def __abs__(self):
        return SymReal(z3.If(self.t >= 0, self.t, -self.t))

    def __pow__(self, o):
        c = _conc_int(o)
        if c is None and isinstance(o, (float, np.floating, Fraction)):
            fr = Fraction(float(o)).limit_denominator(12)
            if abs(float(fr) - float(o)) < 1e-12:
                return self._pow_frac(fr)
        if c is not None and 0 <= c <= 6:
            r = z3.RealVal(1)
            for _ in range(c):
                r = r * self.t
            return SymReal(r)
        if c is not None and -6 <= c < 0:
            return SymReal(z3.RealVal(1)) / (self ** (-c))
        raise HarnessError(f'SymReal ** {o!r} not modelled')

    def _pow_frac(self, fr: Fraction):
        """x ** (p/q) for x >= 0: r = q-th root (fresh r >= 0 with r^q = x), then r^p."""
        if fr.denominator == 1:
            return self ** int(fr.numerator)
        eng = engine()
        r = z3.Real(eng.path_name('root'))
        rq = r
        for _ in range(fr.denominator - 1):
            rq = rq * r
        eng.pc.append(z3.And(r >= 0, rq == self.t))      # defining constraint, see Engine.sqrt
        return SymReal(r) ** int(fr.numerator)

    def _c(self, o, f):
        if isinstance(o, (float, np.floating)) and (np.isinf(o) or np.isnan(o)):
            # a symbolic real is finite: compare against +-inf / nan concretely
            return bool(f(0.0, float(o)))
        b = self._b(o)
        return b if b is NotImplemented else SymBool(f(self.t, b.t))

    def __eq__(self, o):
        if isinstance(o, (str, type(None))):
            return False
        return self._c(o, lambda a, b: a == b)

    def __ne__(self, o):
        if isinstance(o, (str, type(None))):
            return True
        return self._c(o, lambda a, b: a != b)

    def __lt__(self, o):
        return self._c(o, lambda a, b: a < b)

    def __le__(self, o):
        return self._c(o, lambda a, b: a <= b)

    def __gt__(self, o):
        return self._c(o, lambda a, b: a > b)

    def __ge__(self, o):
        return self._c(o, lambda a, b: a >= b)

    # numpy calls these for object arrays: np.log(arr) -> cell.log()
    def log(self):
        return SymReal(uf('ln')(self.t))

    def exp(self):
        return SymReal(uf('exp')(self.t))

    def sqrt(self):
        return engine().sqrt(self)

    def tanh(self):
        return SymReal(uf('tanh')(self.t))


# --------------------------------------------------------------------------------------
# Engine

class PathResult:
    __slots__ = ('pc', 'value', 'exc', 'decisions', 'log', 'assumed')

    def __init__(self, pc, value, exc, decisions, log, assumed=()):
        self.assumed = list(assumed)   # positions in pc that are assumptions (stub contracts), not branches
        self.pc = pc            # list of z3 Bool terms
        self.value = value
        self.exc = exc
        self.decisions = decisions
        self.log = log


class Stats:
    def __init__(self):
        self.paths = 0
        self.branch_queries = 0
        self.queries = 0
        self.solver_time = 0.0
        self.realised: List[str] = []
        self.inconclusive: List[str] = []

    def merge(self, o: 'Stats'):
        self.paths += o.paths
        self.branch_queries += o.branch_queries
        self.queries += o.queries
        self.solver_time += o.solver_time
        self.realised += o.realised
        self.inconclusive += o.inconclusive

    def as_dict(self):
        return dict(paths=self.paths, branch_queries=self.branch_queries, queries=self.queries,
                    solver_time_s=round(self.solver_time, 3),
                    realised=self.realised[:20], inconclusive=self.inconclusive[:20])


class Engine:
    def __init__(self, max_paths=20000, max_decisions=4000, timeout_ms=60000, name='', incremental=True,
                 isolate=()):
        self.name = name
        # classes / modules whose mutable class-level (module-level) containers are put back to their state
        # at the start of explore() before every path: paths are re-executions in ONE interpreter, and a
        # memo filled on one path (possibly with symbolic keys) must not leak into the next
        self.isolate = list(isolate) or list(DEFAULT_ISOLATE)
        # incremental=False: every feasibility check runs in a fresh solver (z3's incremental core
        # has no fpa2bv/sat preprocessing: floating-point path conditions are ~100x slower there)
        self.incremental = incremental
        self.max_paths = max_paths
        self.max_decisions = max_decisions
        self.timeout_ms = timeout_ms
        self.solver = z3.Solver()
        self.solver.set('timeout', timeout_ms)
        self.base: List[Any] = []        # global assumptions (variable domains...)
        self.pc: List[Any] = []
        self.prefix: List[Tuple] = []
        self.pos = 0
        self.work: List[List[Tuple]] = []
        self.stats = Stats()
        self.log: List[Any] = []         # per-path event log (stubs append here)
        self._fresh = itertools.count()
        self._path_fresh = itertools.count()
        self.div_guards: List[Any] = []
        # 'const': symbolic ints hash alike (symbolic coordinates as dict keys, equality forks);
        # 'realise': hashing an int enumerates its feasible values (lookup in concrete-key dicts)
        self.hash_mode = 'const'
        # 'realise': str()/format() of a symbolic int enumerates its values (the result is data);
        # 'placeholder': formatting is logging only and yields a fixed token
        self.format_mode = 'realise'
        self.forced = None
        self.model = None
        # (file, line) sites where hashing a symbolic int must realise it (lookup in a dict with
        # concrete keys); learnt automatically from KeyErrors raised with a symbolic key
        self.realise_sites: set = set()

    # -- session
    def __enter__(self):
        global _ENGINE
        if _ENGINE is not None:
            raise HarnessError('nested symbolic sessions are not supported')
        _ENGINE = self
        return self

    def __exit__(self, *a):
        global _ENGINE
        _ENGINE = None
        return False

    # -- variables
    def fresh_name(self, stem):
        return f'{stem}!{next(self._fresh)}'

    def path_name(self, stem):
        """Deterministic per-path fresh name (same name at the same point of every path)."""
        return f'{stem}@{next(self._path_fresh)}'

    def bit(self, name) -> Bit:
        return Bit(z3.Bool(name))

    def bits(self, stem, n) -> List[Bit]:
        return [Bit(z3.Bool(f'{stem}_{i}')) for i in range(n)]

    def boolean(self, name) -> SymBool:
        return SymBool(z3.Bool(name))

    def integer(self, name, lo=None, hi=None) -> SymInt:
        v = z3.Int(name)
        if lo is not None:
            self.base.append(v >= lo)
        if hi is not None:
            self.base.append(v <= hi)
        return SymInt(v)

    def real(self, name, lo=None, hi=None, lo_strict=False, hi_strict=False) -> SymReal:
        v = z3.Real(name)
        if lo is not None:
            self.base.append(v > lo if lo_strict else v >= lo)
        if hi is not None:
            self.base.append(v < hi if hi_strict else v <= hi)
        return SymReal(v)

    def assume_base(self, t):
        self.base.append(t.t if isinstance(t, (SymBool, Bit)) else t)

    # -- solver
    def _check(self, *extra):
        t0 = time.time()
        if self.incremental:
            r = self.solver.check(*extra)
        else:
            s = z3.Solver()
            s.set('timeout', self.timeout_ms)
            s.add(*self.solver.assertions())
            s.add(*extra)
            r = s.check()
            self._fresh_solver = s
        self.stats.solver_time += time.time() - t0
        return r

    def _last_model(self):
        return self.solver.model() if self.incremental else self._fresh_solver.model()

    def check_sat(self, terms, timeout_ms=None) -> Tuple[str, Optional[z3.ModelRef]]:
        """Stand-alone query (not tied to the current path)."""
        s = z3.Solver()
        s.set('timeout', timeout_ms or self.timeout_ms)
        s.add(*terms)
        t0 = time.time()
        r = s.check()
        self.stats.solver_time += time.time() - t0
        self.stats.queries += 1
        return str(r), (s.model() if r == z3.sat else None)

    # -- path decisions
    def _start_path(self, prefix):
        self.prefix = prefix
        self.pos = 0
        self.pc = []
        self.assumed_idx = []
        self.log = []
        self.model = None
        self._path_fresh = itertools.count()
        self.solver.reset()
        self.solver.set('timeout', self.timeout_ms)
        self.solver.add(*self.base)

    def _push(self, t):
        self.pc.append(t)
        self.solver.add(t)

    def assume(self, cond):
        """Constrain the current path; drop it if infeasible."""
        if isinstance(cond, (bool, np.bool_)):
            if not cond:
                raise Abort()
            return
        t = cond.t
        ts = z3.simplify(t)
        if z3.is_true(ts):
            return
        if z3.is_false(ts):
            raise Abort()
        self.assumed_idx.append(len(self.pc))
        self._push(t)
        self.model = None
        self._model()

    def _model(self):
        """A model of the current path condition (cached while the path only takes the sides the
        model satisfies)."""
        if self.model is None:
            self.stats.branch_queries += 1
            r = self._check()
            if r == z3.unknown:
                raise Inconclusive(f'solver unknown ({self.solver.reason_unknown()})')
            if r == z3.unsat:
                raise Abort()
            self.model = self._last_model()
        return self.model

    def branch(self, t) -> bool:
        ts = z3.simplify(t)
        if z3.is_true(ts):
            return True
        if z3.is_false(ts):
            return False
        if self.pos < len(self.prefix):
            kind, val = self.prefix[self.pos]
            if kind not in ('b', 'i'):
                raise HarnessError('non-deterministic replay of path prefix (expected branch)')
            self.pos += 1
            if kind == 'b':
                self._push(t if val else z3.Not(t))
                self.model = None
            return val
        if self.pos >= self.max_decisions:
            raise Inconclusive('max decisions per path')
        # side taken by the cached model first: it stays a model of the extended path condition
        m = self._model()
        side = z3.is_true(m.eval(t, model_completion=True))
        other = z3.Not(t) if side else t
        self.stats.branch_queries += 1
        ro = self._check(other)
        if ro == z3.unknown:
            raise Inconclusive(f'branch: solver unknown ({self.solver.reason_unknown()})')
        if ro == z3.sat:
            self.work.append(self.prefix[:self.pos] + [('b', not side)])
            self.prefix = self.prefix[:self.pos] + [('b', side)]
            self.pos += 1
            self.pc.append(t if side else z3.Not(t))
            self.solver.add(t if side else z3.Not(t))
            return side
        # implied by the path condition: recorded so that replays stay aligned, nothing pushed
        self.prefix = self.prefix[:self.pos] + [('i', side)]
        self.pos += 1
        return side

    def realise_int(self, t) -> int:
        """Fork over the feasible concrete values of an Int term (bounded, counted)."""
        ts = z3.simplify(t)
        if z3.is_int_value(ts):
            return ts.as_long()
        if self.forced is not None:
            # candidate-driven exploration: the harness supplies the value, nothing is checked here;
            # feasibility and exhaustiveness of the candidate set are separate obligations
            v = self.forced.pop(0)
            self.pc.append(t == v)
            self.solver.add(t == v)
            self.model = None
            return v
        if self.pos < len(self.prefix):
            kind, val = self.prefix[self.pos]
            if kind == 'v':
                self.pos += 1
                self._push(t == val)
                self.model = None
                return val
            if kind != 'nv':
                raise HarnessError('non-deterministic replay of path prefix (expected realise)')
            excluded = list(val)
            self.prefix = self.prefix[:self.pos]
        else:
            excluded = []
        for v in excluded:
            self.solver.add(t != v)
        self.stats.branch_queries += 1
        r = self._check()
        if r == z3.unknown:
            raise Inconclusive('realise: solver unknown')
        if r == z3.unsat:
            raise Abort()
        v = self._last_model().eval(t, model_completion=True).as_long()
        if len(excluded) > 4096:
            raise Inconclusive('realisation domain larger than 4096 values')
        self.work.append(self.prefix[:self.pos] + [('nv', excluded + [v])])
        self.prefix = self.prefix[:self.pos] + [('v', v)]
        self.pos += 1
        for e in excluded:
            self.pc.append(t != e)
        self._push(t == v)
        self.model = None
        self.stats.realised.append(str(t)[:60])
        return v

    def realise_bv(self, bv, signed=True) -> int:
        """Realise a bit-vector term (kept in the BV theory when a value is forced, so that the path
        condition stays in QF_BVFP)."""
        if self.forced is not None:
            v = self.forced.pop(0)
            c = bv == z3.BitVecVal(v, bv.size())
            self.pc.append(c)
            self.solver.add(c)
            self.model = None
            return v
        return self.realise_int(z3.BV2Int(bv, is_signed=signed))

    def note_division(self, t):
        self.div_guards.append(t)

    def sqrt(self, x: SymReal) -> SymReal:
        s = z3.Real(self.path_name('sqrt'))
        # a defining (non-linear) constraint: kept in the path condition for the final queries but not
        # handed to the branch-feasibility solver (which then over-approximates: sound)
        self.pc.append(z3.And(s >= 0, s * s == x.t))
        return SymReal(s)

    # -- exploration
    def explore(self, fn: Callable[[], Any], catch=(Exception,)) -> List[PathResult]:
        results: List[PathResult] = []
        self.work = [[]]
        snap = _snapshot_containers(self.isolate)
        while self.work:
            prefix = self.work.pop()
            if self.stats.paths >= self.max_paths:
                self.stats.inconclusive.append(f'{self.name}: max paths {self.max_paths}')
                raise Inconclusive('max paths')
            _restore_containers(snap)
            self._start_path(prefix)
            w0 = len(self.work)
            if self._check() != z3.sat:
                continue
            try:
                v = fn()
                exc = None
            except Abort:
                continue
            except KeyError as e:
                key = e.args[0] if e.args else None
                site = None
                if isinstance(key, (SymInt, Bit)) and self.hash_mode == 'const':
                    tb = e.__traceback__
                    while tb.tb_next is not None:
                        tb = tb.tb_next
                    site = (tb.tb_frame.f_code.co_filename, tb.tb_lineno)
                if site is not None and site not in self.realise_sites:
                    # lookup of a symbolic int in a dict with concrete keys: realise at this site
                    self.realise_sites.add(site)
                    self.stats.realised.append(f'hash site {site[0].split("/")[-1]}:{site[1]}')
                    del self.work[w0:]          # alternatives queued by the abandoned run
                    self.work.append(list(prefix))
                    continue
                v, exc = None, e
            except catch as e:   # exceptions raised by the code under test are path results
                if isinstance(e, HarnessError):
                    raise
                v, exc = None, e
            self.stats.paths += 1
            results.append(PathResult(list(self.pc), v, exc, list(self.prefix[:self.pos]), list(self.log),
                                      list(self.assumed_idx)))
        return results

    @staticmethod
    def branch_pc(p: 'PathResult'):
        """Path condition without the assumed (contract) atoms: what the branches alone decided."""
        a = set(p.assumed)
        return [t for i, t in enumerate(p.pc) if i not in a]

    # -- queries on a finished path
    def query(self, pc, negated_goal, timeout_ms=None, label=''):
        """sat  -> counterexample model;  unsat -> discharged;  unknown -> inconclusive."""
        terms = list(self.base) + list(pc) + [negated_goal]
        r, m = self.check_sat(terms, timeout_ms)
        return r, m


DEFAULT_ISOLATE: List[Any] = []      # engines created without `isolate` use this (per-process) list


def isolate_classes_of(*objs):
    """Register the classes in the MROs of the given objects (and the modules defining them) for
    container isolation between paths in every engine of this process created afterwards."""
    import sys as _sys
    for o in objs:
        for c in (o if isinstance(o, type) else type(o)).__mro__:
            if c is object:
                continue
            for x in (c, _sys.modules.get(c.__module__)):
                if x is not None and not any(x is y for y in DEFAULT_ISOLATE):
                    DEFAULT_ISOLATE.append(x)


def _snapshot_containers(objs):
    import copy
    snap = []
    for o in objs:
        keep = {}
        for k, v in list(vars(o).items()):
            if isinstance(v, (dict, list, set)) and not k.startswith('__'):
                try:
                    keep[k] = copy.deepcopy(v)
                except Exception:       # noqa: containers of uncopyable objects: one level
                    keep[k] = copy.copy(v)
        # functools caches (lru_cache / cache) that are EMPTY now can be put back exactly: cleared per path
        empties = []
        for k, v in list(vars(o).items()):
            f = v.fget if isinstance(v, property) else v
            f = getattr(f, '__func__', f)
            if hasattr(f, 'cache_clear') and hasattr(f, 'cache_info'):
                try:
                    if f.cache_info().currsize == 0:
                        empties.append(f)
                except Exception:       # noqa
                    pass
        snap.append((o, keep, empties))
    return snap


def _restore_containers(snap):
    import copy
    for o, keep, empties in snap:
        for f in empties:
            f.cache_clear()
        for k, v in list(vars(o).items()):
            if isinstance(v, (dict, list, set)) and not k.startswith('__') and k not in keep:
                try:
                    delattr(o, k)
                except Exception:       # noqa
                    pass
        for k, v in keep.items():
            cur = vars(o).get(k)
            try:
                fresh = copy.deepcopy(v)
            except Exception:           # noqa
                fresh = copy.copy(v)
            if isinstance(cur, dict) and isinstance(fresh, dict):
                cur.clear()
                cur.update(fresh)       # in place: other references to the container stay valid
            elif isinstance(cur, list) and isinstance(fresh, list):
                cur[:] = fresh
            elif isinstance(cur, set) and isinstance(fresh, set):
                cur.clear()
                cur.update(fresh)
            else:
                setattr(o, k, fresh)


def model_int(m, t) -> int:
    return m.eval(t, model_completion=True).as_long()


def model_bool(m, t) -> bool:
    return z3.is_true(m.eval(t, model_completion=True))


def model_frac(m, t) -> Fraction:
    v = m.eval(t, model_completion=True)
    if z3.is_algebraic_value(v):
        v = v.approx(30)
    return Fraction(v.numerator_as_long(), v.denominator_as_long())


def term_of(x, sort='int'):
    """z3 term for a proxy or concrete value."""
    if isinstance(x, (SymBool, Bit)):
        if sort == 'bool':
            return x.t
        if sort == 'real':
            return z3.If(x.t, z3.RealVal(1), z3.RealVal(0))
        return z3.If(x.t, z3.IntVal(1), z3.IntVal(0))
    if isinstance(x, SymInt):
        if sort == 'bool':
            return x.t != 0
        if sort == 'real':
            return z3.ToReal(x.t)
        return x.t
    if isinstance(x, SymReal):
        if sort != 'real':
            raise HarnessError('real where int/bool expected')
        return x.t
    if sort == 'bool':
        c = _conc_num(x)
        if c is None:
            raise HarnessError(f'not boolean: {x!r}')
        return z3.BoolVal(c != 0)
    if sort == 'real':
        return _real_val(x)
    c = _conc_int(x)
    if c is None:
        if isinstance(x, (float, np.floating)) and float(x).is_integer():
            return z3.IntVal(int(x))
        raise HarnessError(f'not an int: {x!r}')
    return z3.IntVal(c)


def bool_term(x):
    """Boolean 'is nonzero / is true' term of a cell."""
    return term_of(x, 'bool')


# --------------------------------------------------------------------------------------
# SymFP: IEEE-754 double, round-to-nearest-even (used where rounding IS the subject: C19)

_F64 = z3.Float64()
_RNE = z3.RNE()


_fp_ln = z3.Function('fp_ln', _F64, _F64)
FP_LN_APPS = []         # (argument, result) terms of np.log applications on doubles, per session


def fp_ln_contract():
    """Instances of the contract of libm's log on doubles for the registered applications:
    x = +-0 -> -inf;  x NaN or x < 0 -> NaN;  x = +inf -> +inf;  0 < x < inf -> finite with
    -745.14 <= ln x <= 709.79 (ln of the smallest subnormal / the largest double), ln x <= 0 for x <= 1 and
    ln x >= 0 for x >= 1."""
    out = []
    fv = lambda v: z3.FPVal(v, _F64)
    for x, r in FP_LN_APPS:
        pos = z3.And(z3.fpGT(x, fv(0.0)), z3.Not(z3.fpIsInf(x)), z3.Not(z3.fpIsNaN(x)))
        out.append(z3.Implies(z3.fpIsZero(x), z3.And(z3.fpIsInf(r), z3.fpIsNegative(r))))
        out.append(z3.Implies(z3.Or(z3.fpIsNaN(x), z3.fpLT(x, fv(0.0))), z3.fpIsNaN(r)))
        out.append(z3.Implies(z3.And(z3.fpIsInf(x), z3.fpIsPositive(x)), z3.And(z3.fpIsInf(r), z3.fpIsPositive(r))))
        out.append(z3.Implies(pos, z3.And(z3.fpGEQ(r, fv(-745.14)), z3.fpLEQ(r, fv(709.79)))))
        out.append(z3.Implies(z3.And(pos, z3.fpLEQ(x, fv(1.0))), z3.fpLEQ(r, fv(0.0))))
        out.append(z3.Implies(z3.And(pos, z3.fpGEQ(x, fv(1.0))), z3.fpGEQ(r, fv(0.0))))
    return out


class SymFP:
    __slots__ = ('t',)
    __array_priority__ = 1000

    def __init__(self, t):
        self.t = t

    @staticmethod
    def lift(o):
        if isinstance(o, SymFP):
            return o
        if isinstance(o, (bool, np.bool_, int, np.integer)):
            return SymFP(z3.FPVal(float(int(o)), _F64))
        if isinstance(o, (float, np.floating)):
            return SymFP(z3.FPVal(float(o), _F64))
        return None

    @staticmethod
    def from_decimal(num_int_term, pow10: int):
        """Correctly rounded double of num/10^pow10 (num an Int/BV term or int, |num| < 2^53): this is
        what float('<decimal literal>') returns."""
        if isinstance(num_int_term, int):
            n = z3.FPVal(float(num_int_term), _F64)
        elif z3.is_bv(num_int_term):
            n = z3.fpSignedToFP(_RNE, num_int_term, _F64)
        else:
            raise HarnessError('from_decimal needs a bit-vector or int numerator')
        return SymFP(z3.fpDiv(_RNE, n, z3.FPVal(float(10 ** pow10), _F64)))

    def __repr__(self):
        return f'SymFP({self.t})'

    def _b(self, o):
        if isinstance(o, np.ndarray):
            return NotImplemented
        r = SymFP.lift(o)
        return NotImplemented if r is None else r

    def __add__(self, o):
        b = self._b(o)
        return b if b is NotImplemented else SymFP(z3.fpAdd(_RNE, self.t, b.t))
    __radd__ = __add__

    def __sub__(self, o):
        b = self._b(o)
        return b if b is NotImplemented else SymFP(z3.fpSub(_RNE, self.t, b.t))

    def __rsub__(self, o):
        b = self._b(o)
        return b if b is NotImplemented else SymFP(z3.fpSub(_RNE, b.t, self.t))

    def __mul__(self, o):
        b = self._b(o)
        return b if b is NotImplemented else SymFP(z3.fpMul(_RNE, self.t, b.t))
    __rmul__ = __mul__

    def __truediv__(self, o):
        b = self._b(o)
        return b if b is NotImplemented else SymFP(z3.fpDiv(_RNE, self.t, b.t))

    def __rtruediv__(self, o):
        b = self._b(o)
        return b if b is NotImplemented else SymFP(z3.fpDiv(_RNE, b.t, self.t))

    def __neg__(self):
        return SymFP(z3.fpNeg(self.t))

    def _c(self, o, f):
        b = self._b(o)
        return b if b is NotImplemented else SymBool(f(self.t, b.t))

    def __lt__(self, o):
        return self._c(o, z3.fpLT)

    def __le__(self, o):
        return self._c(o, z3.fpLEQ)

    def __gt__(self, o):
        return self._c(o, z3.fpGT)

    def __ge__(self, o):
        return self._c(o, z3.fpGEQ)

    def __eq__(self, o):
        if isinstance(o, (str, type(None))):
            return False
        return self._c(o, z3.fpEQ)

    def __ne__(self, o):
        if isinstance(o, (str, type(None))):
            return True
        return self._c(o, lambda a, b: z3.Not(z3.fpEQ(a, b)))

    __hash__ = None  # type: ignore

    def floor(self):
        return SymFP(z3.fpRoundToIntegral(z3.RTN(), self.t))

    def log(self):
        """np.log of a double: an uninterpreted function Float64 -> Float64; every application is
        registered in FP_LN_APPS so that the caller can add the instances of libm's contract
        (`fp_ln_contract`) to its queries."""
        r = _fp_ln(self.t)
        FP_LN_APPS.append((self.t, r))
        return SymFP(r)

    def __round__(self, ndigits=None):
        """builtin round(x): round half to even, as a double holding an integral value."""
        if ndigits not in (None, 0):
            raise HarnessError('round(x, ndigits) of a symbolic double is not modelled')
        return SymFP(z3.fpRoundToIntegral(z3.RNE(), self.t))

    def __int__(self):
        """int(x): truncation toward zero; realised (forks over the feasible values)."""
        bv = z3.fpToSBV(z3.RTZ(), self.t, z3.BitVecSort(32))
        return engine().realise_bv(bv)

    def ceil_int(self, bits=32):
        """ceil(x) as a signed bit-vector (numpy's arange length)."""
        r = z3.fpRoundToIntegral(z3.RTP(), self.t)
        return z3.fpToSBV(z3.RTZ(), r, z3.BitVecSort(bits))
