"""Independent GF(2) linear algebra on bit masks, with certificates that are re-checked by plain
integer arithmetic (DESIGN.md 1.5).  Nothing here calls panqec."""
from __future__ import annotations

from typing import List, Tuple

import numpy as np


def rows_of(M) -> List[int]:
    """Rows of a 0/1 matrix (ndarray or scipy sparse) as ints; bit j <-> column j."""
    if hasattr(M, 'tocsr'):
        M = M.tocsr()
        out = []
        for i in range(M.shape[0]):
            v = 0
            for p in range(M.indptr[i], M.indptr[i + 1]):
                if int(M.data[p]) % 2:
                    v ^= 1 << int(M.indices[p])
            out.append(v)
        return out
    M = np.asarray(M)
    if M.ndim == 1:
        M = M.reshape(1, -1)
    out = []
    for r in M:
        v = 0
        for j in np.nonzero(r % 2)[0]:
            v |= 1 << int(j)
        out.append(v)
    return out


def bits_of(v: int) -> List[int]:
    out = []
    j = 0
    while v:
        if v & 1:
            out.append(j)
        v >>= 1
        j += 1
    return out


def parity(v: int) -> int:
    return bin(v).count('1') & 1


def swap_halves(v: int, n: int) -> int:
    """Lambda: exchange the X half (bits 0..n-1) and the Z half (bits n..2n-1)."""
    lo = v & ((1 << n) - 1)
    hi = v >> n
    return (lo << n) | hi


def echelon(rows: List[int], ncols: int) -> Tuple[List[int], List[int], List[int]]:
    """Reduced row echelon form.  Returns (reduced rows, pivot columns, combination masks) where
    combination mask c means reduced_row = XOR of rows[i] for i in bits(c)."""
    red: List[int] = []
    comb: List[int] = []
    piv: List[int] = []
    for idx, r in enumerate(rows):
        c = 1 << idx
        for rr, cc, p in zip(red, comb, piv):
            if (r >> p) & 1:
                r ^= rr
                c ^= cc
        if r:
            p = (r & -r).bit_length() - 1
            for i in range(len(red)):
                if (red[i] >> p) & 1:
                    red[i] ^= r
                    comb[i] ^= c
            red.append(r)
            comb.append(c)
            piv.append(p)
    return red, piv, comb


def rank_and_kernel(rows: List[int], ncols: int) -> Tuple[int, List[int]]:
    """rank(H) and a basis K of {v : H v = 0} — both certified (AssertionError otherwise)."""
    red, piv, comb = echelon(rows, ncols)
    r = len(red)
    # certificate rank >= r : reduced rows are combinations of H rows and carry an identity block
    for rr, cc in zip(red, comb):
        acc = 0
        for i in bits_of(cc):
            acc ^= rows[i]
        assert acc == rr, 'echelon certificate: combination mismatch'
    for i, p in enumerate(piv):
        for j, rr in enumerate(red):
            assert ((rr >> p) & 1) == (1 if i == j else 0), 'echelon certificate: pivot block'
    pivset = set(piv)
    free = [j for j in range(ncols) if j not in pivset]
    K = []
    for f in free:
        v = 1 << f
        for rr, p in zip(red, piv):
            if (rr >> f) & 1:
                v |= 1 << p
        K.append(v)
    # certificate rank <= ncols - |K| : H K^T = 0 and K has an identity block on the free columns
    for v in K:
        for h in rows:
            assert parity(h & v) == 0, 'kernel certificate: H v != 0'
    for i, f in enumerate(free):
        for j, v in enumerate(K):
            assert ((v >> f) & 1) == (1 if i == j else 0), 'kernel certificate: identity block'
    assert r + len(K) == ncols
    return r, K


def in_rowspace(rows: List[int], v: int, ncols: int) -> bool:
    red, piv, _ = echelon(rows, ncols)
    for rr, p in zip(red, piv):
        if (v >> p) & 1:
            v ^= rr
    return v == 0


def solve(rows: List[int], rhs: List[int], ncols: int):
    """x (bit mask over ncols) with parity(rows[i] & x) == rhs[i] for all i, or None.  Certified."""
    aug = [r | (int(b) << ncols) for r, b in zip(rows, rhs)]
    red, piv, _ = echelon(aug, ncols + 1)
    x = 0
    for rr, p in zip(red, piv):
        if p == ncols:
            return None          # 0 = 1
        if (rr >> ncols) & 1:
            x |= 1 << p
    # free variables are 0; pivots must not overlap free columns with value 1 -> verify
    for r, b in zip(rows, rhs):
        if parity(r & x) != int(b):
            # pivot rows may involve free columns only with x=0 there, so this cannot happen
            raise AssertionError('solve certificate failed')
    return x


def independent_subset(rows: List[int], ncols: int) -> List[int]:
    """Indices of a maximal independent subset of rows (greedy), certified by rank."""
    red: List[int] = []
    piv: List[int] = []
    idx = []
    for i, r in enumerate(rows):
        for rr, p in zip(red, piv):
            if (r >> p) & 1:
                r ^= rr
        if r:
            p = (r & -r).bit_length() - 1
            for j in range(len(red)):
                if (red[j] >> p) & 1:
                    red[j] ^= r
            red.append(r)
            piv.append(p)
            idx.append(i)
    r_all, _ = rank_and_kernel(rows, ncols)
    assert r_all == len(idx)
    return idx


def symplectic_frame(H: List[int], LX: List[int], LZ: List[int], n: int):
    """Invertible change of variables for F_2^{2n}: columns [S | LX | LZ | D] with S an independent
    generating subset of H and D dual to S (S_i Lambda D_j = delta_ij, L Lambda D_j = 0).
    Returns (S_idx, D) or None when no such frame exists (H, L not a valid stabilizer code).
    Certified: rank([S;LX;LZ;D]) = 2n."""
    S_idx = independent_subset(H, 2 * n)
    S = [H[i] for i in S_idx]
    k = len(LX)
    if len(S) + k != n or len(LZ) != k:
        return None
    A = [swap_halves(v, n) for v in S + LX + LZ]
    D = []
    for j in range(len(S)):
        rhs = [1 if i == j else 0 for i in range(len(S))] + [0] * (2 * k)
        x = solve(A, rhs, 2 * n)
        if x is None:
            return None
        D.append(x)
    r, _ = rank_and_kernel(S + LX + LZ + D, 2 * n)
    if r != 2 * n:
        return None
    return S_idx, D
