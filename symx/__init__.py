from .core import *  # noqa
from .core import Engine, SymBool, Bit, SymInt, SymReal, Abort, Inconclusive, HarnessError, engine
from .arrays import SA, as_sa, SymSparse, csr_shim, NP, install, concretize
