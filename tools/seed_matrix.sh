#!/bin/bash
# usage: tools/seed_matrix.sh [out-file]   -- every kept seed against the check of the property it breaks
# (plus the checks listed under caught_by in its meta.json); one line per (seed, check).
HERE="$(cd "$(dirname "$0")/.." && pwd)"
OUT="${1:-$HERE/seeded/MATRIX.txt}"
: > "$OUT"
for D in "$HERE"/seeded/C*/; do
  SID=$(basename "$D")
  CHECKS=$(python3 -c "
import json,sys
m=json.load(open('$D/meta.json'))
c=[m['breaks_property']]+[x for x in m.get('caught_by',[]) if x!=m['breaks_property']]
print(' '.join(dict.fromkeys(c)))")
  "$HERE/tools/seed_rerun.sh" "$SID" $CHECKS | tee -a "$OUT"
done
