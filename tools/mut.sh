#!/bin/sh
# usage: tools/mut.sh <patchfile> <check args...>   -- apply a patch to /repo, run ./check, revert
P="$1"; shift
git -C /repo apply "$P" || { echo "patch does not apply"; exit 3; }
trap 'git -C /repo checkout -- . ; git -C /repo status --short | head -3' EXIT
cd /verif && ./check "$@"
echo "exit=$?"
