#!/usr/bin/env python3
"""Regenerates /verif/MANIFEST.json from the table below (single source of truth)."""
import json
import os

HERE = os.path.dirname(os.path.dirname(os.path.abspath(__file__)))

CHECKS = {
    'C01': dict(
        text='The real get_stabilizer of every class (through the wrappers StabilizerCode.deform installs and the real '
             'get_deformation / qubit_axis / is_qubit / stabilizer_type) is run on SYMBOLIC stabilizer locations; z3 '
             'decides, for every pair of locations and every (location, logical) pair at once, that the overlap of '
             'anticommuting letters is even, per configuration (class x size x deformation name x axis). Rank n-k and '
             'independence of the logicals are decided through the real in_codespace on a symbolic error (every '
             'zero-syndrome error lies in span(H, L)) plus certified GF(2) ranks; the k x k logical table is ground, '
             'as is the fact that an object used (k, d, H, logicals read) before deform() ends with the verified matrices. '
             'Bounded model checking is the right level: the quantifier is over locations/errors of finitely many '
             'enumerated lattices, not over all L.',
        note='Trusted: z3, symx proxies, SymDict/SymList shadows of the index tables (membership of a symbolic '
             'coordinate as a formula), canonicalisation of operator dicts, certified GF(2) elimination. Classes whose '
             'get_stabilizer looks coordinates up in literal dicts (Color3D, Color666Toric deformation) are realised '
             '(solver-enumerated) at those sites. Supported family per DESIGN.md section 2.',
        technique='symbolic execution of real Python with symbolic lattice coordinates (symx) + z3 LIA', ref='3/C01'),
    'C02': dict(
        text='Row i of the assembled H equals the BSF image of get_stabilizer(coordinate i) for SYMBOLIC stabilizer and '
             'qubit locations (z3), supports lie inside the qubit set and are non-empty; to_bsf/from_bsf are inverse on '
             'all 4^n operators of small codes; X-(Z-)syndrome depends only on the Z-(X-)half for two symbolic errors; '
             'the assembly of a user-defined StabilizerCode with symbolic supports/letters produces exactly the BSF '
             'image; index tables are invariant under every modelled iteration order of str-keyed sets (hash seed); an '
             'object built after other code objects were used in the same process (solver-chosen, realised, one forked '
             'process per history) equals the object a fresh process builds.',
        note='Trusted: as C01; hash randomisation modelled as 3 solver-chosen iteration orders of sets containing '
             'str/bytes (ints and int tuples hash deterministically in CPython); replay runs real interpreters with 6 '
             'hash seeds. User-defined codes on a fixed scaffold, <= 2x2 (quick) incidences.',
        technique='symbolic execution of real Python with symbolic coordinates/supports (symx) + z3', ref='3/C02'),
    'C05': dict(
        text='The real MatchingDecoder, BeliefPropagationOSDDecoder (CSS / non-CSS, channel_update on/off), '
             'UnionFindDecoder wiring and both sweep-match wrappers run on the syndrome of a fully symbolic Pauli error '
             'with the third-party engines replaced by contract stubs (a solution of H c = s; minimum weight for '
             'PyMatching; ldpc\'s osdw_decoding buffer refreshed only when OSD ran); z3 decides length 2n, binary, '
             'syndrome(error+correction)=0, trivial syndrome -> trivial correction (also on a reused decoder) for all '
             'errors. Constructibility over allowed_codes, the real union-find on weight<=2 errors and the real decoders '
             'on bool / int64 syndromes (weight<=2 errors, union-find up to Toric2DCode(4,4) quick, (4,5) thorough), every '
             'decoder incl. the incomplete ones on non-cubic lattices (no exception, binary, length 2n) and the boundary '
             'noise settings (rate 0, one-sided noise) are realised instantiation lists with the real engines.',
        note='The claim is about panqec\'s wiring under the engines\' documented contracts; internals of PyMatching, ldpc, '
             'uf_support, MBP, XCube matching are not encoded (a change inside them is invisible).',
        technique='symbolic execution of real Python (symx) + z3 with contract stubs for C engines', ref='3/C05'),
    'C06': dict(
        text='One decoder object is called twice (syndromes of two symbolic errors) and compared with a fresh object: '
             'engine outputs are uninterpreted functions of (check-matrix content, priors currently held, syndrome), so '
             'z3 decides purity by congruence; the caller\'s syndrome array and the lru_cached probability tables are '
             'compared cell-wise (terms) before/after. Sweep / sweep-match decoders: caller\'s syndrome unchanged on a '
             'symbolic 3-qubit error window with the automaton bounded; XCube matching: realised window with real engines.',
        note='One earlier call stands for longer histories (the state panqec keeps between calls is what the stubs model '
             'plus the cache). Hidden state inside the real C engines is outside.',
        technique='symbolic execution of real Python (symx) + z3 EUF (uninterpreted engine functions)', ref='3/C06'),
    'C07': dict(
        text='probability_distribution with symbolic (p, r) is shown cell-wise equal to (1-p, p r_sigma) permuted by the '
             'real get_deformation, non-negative, summing to 1 (polynomial identities, z3 NRA); fast_choice / generate / '
             'get_weights / BP-OSD prior assembly and conditional update run on ARBITRARY per-qubit distributions with '
             'symbolic uniform variates: letter <=> variate in its consecutive interval, qubit i uses variate i, exactly '
             'n draws from the supplied rng, p=0/p=1 end points, weights are LLRs of the flip marginals, ldpc receives '
             'the marginals in column order ([z|x] for non-CSS).',
        note='Floats are reals (the rounding-only fallback of fast_choice is outside); rng draws are fresh symbolic '
             'reals in [0,1); ln uninterpreted; ldpc stubbed (records pushes).',
        technique='symbolic execution of real Python with symbolic reals (symx) + z3 LRA/NRA; contract stubs', ref='3/C07'),
    'C08': dict(
        text='get_deformation on a SYMBOLIC qubit location returns a bijective involution of {X,Y,Z} matching the named '
             'deformation (XZZX: X<->Z exactly where qubit_axis == axis; XY: Y<->Z everywhere); for all 4^n errors the '
             'deformed object\'s measure_syndrome/logical_errors on D(e) equal the undeformed ones on e; the deformed '
             'noise model\'s cells equal the relabelled ones for symbolic (p, r); apply_deformation is the Hadamard swap '
             'for symbolic vector and mask; deform() is history independent over all enumerated operation sequences.',
        note='D_i taken from the real get_deformation at each concrete qubit; reals for probabilities; histories of '
             'length 1 (quick) / <= 2 (thorough).',
        technique='symbolic execution of real Python (symx) + z3; XOR normal form equality', ref='3/C08'),
    'C19': dict(
        text='read_range_input runs with the decimal literals symbolic as IEEE-754 doubles (float() = correctly rounded '
             'quotient, np.arange = validated IEEE model); candidate-driven exploration + stand-alone QF_BVFP queries '
             '(cvc5) decide that exactly (max-min)/step+1 values are returned, starting at min, none a step beyond max, '
             'for every literal on the grid; get_direction_from_bias_ratio is decided over all real eta >= 0; '
             'generate_input + read_input_dict are explored over solver-chosen bias-ratio lists on an in-memory FS, and over '
             'ordered pairs of invocations in one process (bias ratio x noise deformation each, one forked process per pair).',
        note='np.arange modelled (validated against real numpy on 3000 triples per run); value claim beyond the first '
             'two elements follows numpy\'s own progression (ulps); files part is a finite realised configuration list.',
        technique='symbolic execution of real Python with IEEE-754 terms (symx) + cvc5/z3 QF_BVFP; z3 NRA', ref='3/C19'),
    'C20': dict(
        text='qubit_representation / stabilizer_representation (base + every per-class override) run on SYMBOLIC '
             'locations for every GUI code x deformation x {kitaev, rotated} x menu sizes: no path raises, every path '
             'returns a complete description. /decode and /new-errors run through the Flask test client with recorder '
             'stubs and solver-chosen menu options: the decoder, code (class, size, deformation) and noise model '
             '(direction, deformation) built are the requested ones and the response is what they return. Decoder / '
             'deformation menus and /code-data (H, logicals, counts, types) are ground tables through the same client.',
        note='The JavaScript front end and Flask transport are outside; menu sizes intersected with the supported family.',
        technique='symbolic execution of real Python with symbolic coordinates (symx) + z3; realised menu options',
        ref='3/C20'),
    'C18': dict(
        text='The real error_probability (product and log form) runs on a fully symbolic error with arbitrary per-qubit '
             'distributions; z3 (LRA) shows every factor is the channel probability of the letter on that qubit, that '
             'the result is the single reduction over exactly those n factors, and that the four letters sum to one. The log '
             'form additionally runs on IEEE-754 doubles (np.log uninterpreted under libm\'s contract): cvc5 proves it '
             'finite whenever all factors are positive doubles. The Metropolis step of the splitting method is decided '
             'with symbolic log-probabilities for two simulations stepped one after the other.',
        note='probability_distribution is a stub (arbitrary distributions); np.prod/np.sum/np.log observed at the numpy '
             'proxy; floats are reals except in C18/fp/* (n = 4..8, three concrete error patterns). Also decided: the tables '
             'are not altered by the query, the factors are still the channel values after get_weights ran on the same '
             'objects, and the REAL tables of deformed models sum to one (C07\'s symbolic run, reported here).',
        technique='symbolic execution of real Python (symx) + z3 LRA; IEEE-754 terms + cvc5 QF_UFBVFP', ref='3/C18'),
    'C03': dict(
        text='Bounded symbolic execution of the real bs_prod (all 9 representation pairs x 1-D/2-D stack shapes), '
             'converters, bsf_wt, brank and measure_syndrome with every input bit symbolic; z3 decides each '
             'assertion for all bit values at once (n<=3 qubits, <=2 rows quick; n<=6 thorough), plus a QF_BV '
             'lemma for fixed-width accumulator wrap (overlaps up to 1200); two- and three-row dense / sparse stacks '
             'convert row by row (no state carried between rows). Right level: the property is a '
             'finite-field identity over all inputs of a loop-free kernel.',
        note='Trusted: z3, the symx proxies (ints for uint8 cells; wrap handled by the BV lemma whose numpy model is '
             'validated concretely), the csr_shim standing in for scipy csr on symbolic operands. String/int '
             'converters realise their input (solver-enumerated) because the real code builds Python str/int.',
        technique='symbolic execution of real Python (symx proxies) + z3; QF_BV lemma', ref='3/C03'),
    'C04': dict(
        text='The real in_codespace / logical_errors / is_logical_error / is_success / get_effective_error / bs_prod '
             'run on a fully symbolic 2n-bit error; z3 proves success <=> membership in the row space of H (spec: '
             'certified kernel basis), codespace <=> zero syndrome, logical bits = anticommutation flags, linearity '
             'and coset invariance for all 4^n errors of every configuration in the bound (n<=100 quick, <=200 '
             'thorough, all deformations); the logical effect is also decided for the dense single-row (1,2n) and the '
             'two-row batch representation of the error (all branches of get_effective_error).',
        note='Trusted: z3, symx proxies, csr_shim, the independently certified GF(2) kernel/frame (re-checked by '
             'integer arithmetic). Where the direct query is out of reach an invertible (certified) change of '
             'variables e=[S|LX|LZ|D]v is used; H and the logicals are taken from the real object (C01/C02).',
        technique='symbolic execution of real Python (symx proxies) + z3 (XOR normal form, certified change of variables)',
        ref='3/C04'),
    'C09': dict(
        text='Real MatchingDecoder + get_weights with MatchStub: z3 decides that no competitor correction with the same '
             'sector syndrome has smaller TRUE log-likelihood weight (LLR of the X-/Z-flip marginal, ln uninterpreted) '
             'given that PyMatching is minimum-weight for the matrix and weights panqec handed it - i.e. the wiring '
             '(Hz with X weights, Hx with Z weights, sector halves, the single-sector modes error_type=X / Z, and the options '
             'passed to the engine: the stub models '
             'pymatching\'s documented merge strategies for parallel edges). With uniform weights, real decode + real is_success '
             'on a symbolic error of weight <= floor((d-1)/2): always corrected (toric / planar / rotated planar).',
        note='Exactness of PyMatching itself, and the union-find / sweep-match end-to-end guarantees, are NOT decided '
             '(their control flow is the syndrome).',
        technique='symbolic execution of real Python (symx) + z3 LRA/EUF/pseudo-Boolean; contract stub', ref='3/C09'),
    'C10': dict(
        text='flip_edge of both sweep decoders with a SYMBOLIC edge location and a fully symbolic state: state\' = state '
             'xor (X-part column of H at the edge), all edges x all 2^m states; sweep_move from a symbolic window state '
             '(the three sweep faces of one vertex), arbitrary prior correction on the candidate edges and a symbolic '
             'tie-break draw: state change == face syndrome of the correction change, correction stays Z-only - one '
             'inductive step of the invariant, for every vertex x sweep direction. Realised: the decode loop with scripted '
             'steps, and flip_edge after decoders of the sibling code classes (same size) were used in the same process.',
        note='Termination/success of the automaton is outside. Seam (wrap-around / boundary) and interior edges are '
             'separate obligations.',
        technique='symbolic execution of real Python with symbolic lattice coordinates (symx) + z3', ref='3/C10'),
    'C11': dict(
        text='Real run_once with stub noise model / decoder returning ARBITRARY binary vectors: recorded syndrome, '
             'effective_error, codespace, success are decided equal to their definitions for all (error, correction) '
             'pairs; real DirectSimulation run(k1); run(k2) with symbolic run lengths: list lengths == n_runs == k1+k2, '
             'estimator and standard error formulas, every generate() gets the simulation\'s own rng. Realised with the real '
             'classes and engines: a simulation\'s results (same seed) are bit-for-bit those of a fresh process whatever '
             'simulation ran before it in the process (solver-chosen ordered pairs, shared code and noise objects, an optional read-only error_probability query in between).',
        note='The statistical claim (unbiased estimate of the exact failure probability) is not decided.',
        technique='symbolic execution of real Python (symx) + z3', ref='3/C11'),
    'C12': dict(
        text='Real BatchSimulation / BaseSimulation / save_json / load_json on an in-memory file system; the solver '
             'chooses (n1 <= n2, save_frequency, crash point among all crash opportunities of the first run, kill vs '
             'KeyboardInterrupt, grown specification); after a fault-free restart: completes, exact trial counts, last '
             'completed save is a prefix, no duplicate trial, no foreign record adopted, a completed run is on disk. '
             'Configurations with lines=1 also inject a KeyboardInterrupt before every line of the state-holding '
             'functions (trial loop, appends, load / save / pause handling).',
        note='Bounded fault-schedule exploration: the schedule variables are realised (the solver enumerates them); byte '
             'offsets are represented by the classes {0, interior, complete}; one crash per history.',
        technique='solver-enumerated fault schedules over the real code (symx realisation) on a modelled file system',
        ref='3/C12'),
    'C13': dict(
        text='The real range parser / expander / simulation builder (_parse_all_ranges, expand_input_ranges, get_runs, '
             'get_simulations, read_input_dict, _parse_*_dict, DirectSimulation.__init__) runs with SYMBOLIC parameter '
             'values and recorder registries; z3 decides that the multiset of constructed (class, code params, noise '
             'params, decoder params, rate) equals the requested Cartesian product for all values (duplicates included), '
             'for every axis-length combination and spec form in the bound. Registry names and params round-trips are '
             'finite ground tables over the real classes; solver-chosen (realised) lists of REAL noise / decoder / code '
             'entries are expanded by the real classes and every built simulation must be and record exactly one '
             'requested combination (direction, deformation name and kwargs, distribution, decoder parameters).',
        note='Parameter values are opaque integers; registries stubbed by recorders for the expansion part only.',
        technique='symbolic execution of real Python (symx) + z3 multiset equality; ground tables', ref='3/C13'),
    'C14': dict(
        text='The real run_parallel callback runs for every job index with a SYMBOLIC trial count (up to 10^6); z3 (LIA '
             'with div/mod) decides per-input totals == trials, every task >= 1 trial, distinct result files, no '
             'exception, for every (N, C, #inputs) with N, C <= 3 (quick) / 7 (thorough). Realised: the real run_file '
             '(what every task executes) writes a result file holding exactly the task\'s trials for n_runs = 1.. and '
             'both output formats.',
        note='glob / os / multiprocessing / print inside panqec.cli are recorder stubs.',
        technique='symbolic execution of real Python (symx) + z3 LIA', ref='3/C14'),
    'C15': dict(
        text='The real pandas pipeline (read_entry, aggregate, total / word / single-qubit error rates, sector counting '
             'block) runs with SYMBOLIC trial contents (success, codespace, 2k effective-error bits per trial); z3 '
             'decides pooled n_trials / n_fail, p_est, p_se, word error rate and its standard error, single-qubit '
             'estimates and their own standard errors, sector counts and estimates equal their definitions for all trial '
             'contents, for every enumerated split of the trials over entries / files / orders.',
        note='Floats are reals; sqrt / k-th roots are fresh variables with defining constraints; threshold fitting is '
             'stubbed out (C16). File discovery and container formats are realised layouts on real temporary files (one '
             'forked process each, also after another Analysis object was evaluated in the same process).',
        technique='symbolic execution of real Python/pandas (symx) + z3 NRA', ref='3/C15'),
    'C17': dict(
        text='The real in_codespace, is_logical_error and bsf_wt run on a fully symbolic Pauli operator; z3 shows no '
             'operator with zero syndrome, non-trivial logical action and weight < code.d exists and that weight d '
             'is attained (pseudo-Boolean cardinality), for all configurations with n<=100 (quick; every deformation) / '
             'every deformation for n<=300, d<=8 plus undeformed lattices with 2-D sides <= 9, 3-D sides <= 5, n<=700, '
             'd<=9 (thorough), plus flat (2,16,16) lattices whose membrane representative has weight 2^8.',
        note='Trusted: z3, symx proxies, csr_shim. d itself is computed concretely by the real property.',
        technique='symbolic execution of real Python (symx proxies) + z3 pseudo-Boolean query', ref='3/C17'),
}

NOT_APPLICABLE = {
    'C16': 'fixed point of scipy.optimize.curve_fit (compiled MINPACK) plus a beta-resampled bootstrap in floating '
           'point: neither can be encoded for an SMT solver within reach; the encodable fragment (fit_function / '
           'rescale_prob equal the ansatz) does not decide the statement (DESIGN.md 3/C16)',
}

NOT_YET = 'check not built yet in this round (planned, see DESIGN.md section 3); not claimed'


def main():
    ids = [json.loads(l)['id'] for l in open(os.path.join(HERE, 'properties.jsonl'))]
    checks = []
    for pid in ids:
        c = CHECKS.get(pid)
        if not c:
            continue
        checks.append(dict(
            property_id=pid,
            quick_cmd=f'./check {pid} --tier quick',
            thorough_cmd=f'./check {pid} --tier thorough',
            evidence_file=f'/verif/evidence/{pid}.json',
            replay_cmd_template=f'./check {pid} --replay {{path}}',
            engine='symx',
            level_claimed=dict(category='model_checking', text=c['text'], design_ref=c['ref']),
            level_note=c['note'],
            technique=c['technique']))
    na = []
    for pid in ids:
        if pid in CHECKS:
            continue
        na.append(dict(property_id=pid, reason=NOT_APPLICABLE.get(pid, NOT_YET)))
    m = dict(
        version=1,
        setup_cmd='./setup.sh',
        hooks=dict(guard='PANQEC_VERIF',
                   enable='no source hook needed: stubs/shims are injected into panqec module namespaces at run time '
                          'by the harness (symx.install); the guard variable is unused',
                   baseline_off_cmd='cd /repo && /venv/bin/python -m pytest -ra -q -p no:cacheprovider --timeout=900 '
                                    '--continue-on-collection-errors',
                   source_commits=[], add_only=True),
        engines=[dict(name='symx', path='/verif/symx', serves_properties=sorted(CHECKS),
                      kind_free_text='proxy-based bounded symbolic executor for the real panqec Python functions on '
                                     'z3 (paths by decision-prefix re-execution; numpy object arrays of z3-backed '
                                     'cells; nondeterministic stubs for C engines / rng / fs)')],
        checks=checks,
        not_applicable=na,
        notes='Every check is bounded: the bound (configurations, sizes, unrollings) is in each evidence file under '
              'coverage.bounds / coverage.outside_claim. Exit codes: 0 held, 1 VIOLATION (replayed on the real code), '
              '2 harness error (never a verdict). INCONCLUSIVE lines are obligations not decided within the time cap; '
              'they are not counted as discharged.')
    with open(os.path.join(HERE, 'MANIFEST.json'), 'w') as f:
        json.dump(m, f, indent=1)
    print('MANIFEST.json:', len(checks), 'checks,', len(na), 'not claimed')


if __name__ == '__main__':
    main()
