#!/bin/bash
# usage: tools/seed_eval.sh <seed-id> <worktree> <check-id> [<check-id>...]
# Confirms a seeded change (suite unchanged, demo fails with / passes without) and runs checks against it.
set -u
SID="$1"; WT="$2"; shift 2
OUT=/verif/seeded/$SID
mkdir -p "$OUT"
git -C "$WT" diff -- panqec > "$OUT/patch.diff"
cp "$WT/demo_seeded.py" "$OUT/demo_seeded.py" 2>/dev/null
cp "$WT/SEEDED_NOTES.md" "$OUT/SEEDED_NOTES.md" 2>/dev/null
echo "== suite with the change (worktree)"
( cd "$WT" && /venv/bin/python -m pytest -q -p no:cacheprovider --timeout=900 -n 8 2>&1 | tail -1 ) | tee "$OUT/suite_with.txt"
echo "== demo with the change"
( cd "$WT" && PYTHONPATH="$WT" /venv/bin/python demo_seeded.py >/dev/null 2>&1; echo "exit=$?" ) | tee "$OUT/demo_with.txt"
( cd "$WT" && git stash -q -- panqec )
echo "== suite without the change"
( cd "$WT" && /venv/bin/python -m pytest -q -p no:cacheprovider --timeout=900 -n 8 2>&1 | tail -1 ) | tee "$OUT/suite_without.txt"
echo "== demo without the change"
( cd "$WT" && PYTHONPATH="$WT" /venv/bin/python demo_seeded.py >/dev/null 2>&1; echo "exit=$?" ) | tee "$OUT/demo_without.txt"
( cd "$WT" && git stash pop -q )
echo "== checks against the change applied to /repo"
if ! git -C /repo apply --check "$OUT/patch.diff" 2>/dev/null; then
  echo "patch does not apply cleanly to /repo HEAD; trying 3-way"
fi
git -C /repo apply --3way "$OUT/patch.diff" 2>&1 | tail -2
git -C /repo status --short | head -5
for C in "$@"; do
  ( cd /verif && timeout 3000 ./check "$C" --tier quick > "$OUT/check_$C.log" 2>&1; echo "check $C exit=$?" ) | tee -a "$OUT/checks.txt"
  grep -c "^VIOLATION" "$OUT/check_$C.log" | sed "s/^/  VIOLATION lines: /"
  grep "^VIOLATION\|^  obligation" "$OUT/check_$C.log" | head -4 | cut -c1-220
done
git -C /repo reset -q --hard HEAD
git -C /repo status --short | head -3
rm -rf /verif/replays
