#!/bin/bash
# usage: tools/seed_eval.sh <seed-id> <worktree> <check-id> [<check-id>...]
# Confirms a seeded change (suite unchanged, demo fails with / passes without) and runs checks against it.
set -u
SID="$1"; WT="$2"; shift 2
OUT=/verif/seeded/$SID
mkdir -p "$OUT"
git -C "$WT" diff -- panqec > "$OUT/patch.diff"
cp "$WT/demo_seeded.py" "$OUT/demo_seeded.py" 2>/dev/null
cp "$WT/SEEDED_NOTES.md" "$OUT/SEEDED_NOTES.md" 2>/dev/null
echo "== suite with the change (worktree)"
( cd "$WT" && /venv/bin/python -m pytest -q -p no:cacheprovider --timeout=900 -n 8 2>&1 | tail -1 ) | tee "$OUT/suite_with.txt"
echo "== demo with the change"
( cd "$WT" && PYTHONPATH="$WT" /venv/bin/python demo_seeded.py >/dev/null 2>&1; echo "exit=$?" ) | tee "$OUT/demo_with.txt"
# (no git stash: the stash stack is shared by all worktrees of /repo)
( cd "$WT" && git checkout -q -- panqec )
echo "== suite without the change"
( cd "$WT" && /venv/bin/python -m pytest -q -p no:cacheprovider --timeout=900 -n 8 2>&1 | tail -1 ) | tee "$OUT/suite_without.txt"
echo "== demo without the change"
( cd "$WT" && PYTHONPATH="$WT" /venv/bin/python demo_seeded.py >/dev/null 2>&1; echo "exit=$?" ) | tee "$OUT/demo_without.txt"
( cd "$WT" && git apply "$OUT/patch.diff" )
echo "== checks against the change (scratch worktree via VERIF_REPO; /repo is not touched)"
( cd "$WT" && git checkout -q -- panqec; git checkout -q --detach "$(git -C /repo rev-parse HEAD)" 2>/dev/null; git apply "$OUT/patch.diff" ) 2>&1 | tail -2
( cd "$WT" && git status --short | head -3 )
for C in "$@"; do
  ( cd /verif && VERIF_REPO="$WT" timeout 3000 ./check "$C" --tier quick > "$OUT/check_$C.log" 2>&1; echo "check $C exit=$?" ) | tee -a "$OUT/checks.txt"
  grep -c "^VIOLATION" "$OUT/check_$C.log" | sed "s/^/  VIOLATION lines: /"
  grep "^VIOLATION\|^  obligation" "$OUT/check_$C.log" | head -4 | cut -c1-220
done
( cd /verif && git checkout -q -- evidence 2>/dev/null )
rm -rf /verif/replays
