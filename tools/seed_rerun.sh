#!/bin/bash
# usage: tools/seed_rerun.sh <seed-id> <check-id> [<check-id>...]
# Re-applies a kept seeded change in a scratch worktree of /repo (outside /repo and /verif), runs the given
# checks (quick tier) against it through VERIF_REPO, prints their exit codes and removes the worktree.
set -u
SID="$1"; shift
HERE="$(cd "$(dirname "$0")/.." && pwd)"
WT=$(mktemp -d /tmp/seedwt.XXXXXX)
rmdir "$WT"
git -C /repo worktree add -q "$WT" HEAD || exit 3
if ! git -C "$WT" apply "$HERE/seeded/$SID/patch.diff"; then
  echo "$SID: patch does not apply"; git -C /repo worktree remove --force "$WT"; exit 3
fi
for C in "$@"; do
  LOG=$(mktemp /tmp/seedlog.XXXXXX)
  ( cd "$HERE" && VERIF_REPO="$WT" timeout 3000 ./check "$C" --tier quick > "$LOG" 2>&1; echo "$SID $C exit=$? violations=$(grep -c '^VIOLATION' "$LOG") harness_errors=$(grep -c '^HARNESS-ERROR' "$LOG")" )
  rm -f "$LOG"
done
git -C /repo worktree remove --force "$WT"
( cd "$HERE" && git checkout -q -- evidence 2>/dev/null; rm -rf replays )
