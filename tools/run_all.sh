#!/bin/bash
# usage: tools/run_all.sh quick|thorough  -- runs every registered check sequentially, logs under /tmp/runall_<tier>/
TIER=${1:-quick}
OUT=/tmp/runall_$TIER; mkdir -p $OUT
cd "$(dirname "$0")/.."
for C in $(python3 -c "import json; print(' '.join(c['property_id'] for c in json.load(open('MANIFEST.json'))['checks']))"); do
  S=$(date +%s)
  ./check $C --tier $TIER > $OUT/$C.log 2>&1
  E=$?
  echo "$C exit=$E wall=$(( $(date +%s) - S ))s $(tail -1 $OUT/$C.log | cut -c1-160)"
done
