"""C13 — input specifications expand to exactly the requested simulations.

Real functions executed symbolically: _parse_parameters_range, _parse_all_ranges,
expand_input_ranges, get_runs, get_simulations, read_input_dict, _parse_code_dict,
_parse_error_model_dict, _parse_decoder_dict and the real DirectSimulation constructor, with the
parameter VALUES symbolic (opaque integers) and the class registries replaced by recorder classes.
Registry names and params round-trips are finite tables, decided as ground facts."""
import itertools
import json
import sys
import time

import numpy as np
import z3

from symx import Engine
from symx.core import z3_and, z3_or, SymInt, term_of
from symx import harness as hz

PID = 'C13'


class Rec:
    """Recorder standing for a registered class: keeps its constructor arguments."""
    kind = '?'

    def __init__(self, *args, **kwargs):
        self.args, self.kwargs = args, kwargs

    @property
    def id(self):
        return self.kind

    @property
    def params(self):
        return dict(self.kwargs)

    n = 1
    k = 1
    d = 1


class RecCode(Rec):
    """Recorder with the constructor signature of the real code classes: parameters are bound BY NAME."""

    def __init__(self, L_x, L_y=None, L_z=None):
        self.args = ()
        self.kwargs = {'L_x': L_x, 'L_y': L_y, 'L_z': L_z}


def make_recorders():
    class CodeA(RecCode):
        kind = 'CodeA'

    class CodeB(RecCode):
        kind = 'CodeB'

    class Noise(Rec):
        kind = 'Noise'

    class Dec(Rec):
        kind = 'Dec'

        @property
        def params(self):
            return {k: v for k, v in self.kwargs.items() if k not in ('code', 'error_model', 'error_rate')}
    return CodeA, CodeB, Noise, Dec


def tuple_terms(t):
    return [term_of(x, 'int') for x in t]


def multiset_differs(got, want):
    """z3 Bool: the two lists of equal-length integer-term tuples differ as multisets."""
    if len(got) != len(want):
        return z3.BoolVal(True)
    eq = lambda a, b: z3_and([x == y for x, y in zip(a, b)])
    diffs = []
    for t in got + want:
        cg = z3.Sum([z3.If(eq(t, u), 1, 0) for u in got])
        cw = z3.Sum([z3.If(eq(t, u), 1, 0) for u in want])
        diffs.append(cg != cw)
    return z3_or(diffs)


def w_expand(cfg, tier):
    """cfg = 'expand form=<ranges|list|runs> c=<nc> n=<nn> d=<nd> r=<nr> pform=<dict|list>'"""
    import panqec.simulation._batch_simulation as bs
    parts = dict(p.split('=') for p in cfg.split()[1:])
    form, pform = parts['form'], parts.get('pform', 'dict')
    nc, nn, nd, nr = (int(parts[k]) for k in 'cndr')
    col = hz.Collector(cfg)
    col.encoded(bs._parse_parameters_range, bs._parse_all_ranges, bs.expand_input_ranges, bs.get_runs,
                bs.get_simulations, bs.read_input_dict, bs._parse_code_dict, bs._parse_error_model_dict,
                bs._parse_decoder_dict, bs.DirectSimulation.__init__)
    CodeA, CodeB, Noise, Dec = make_recorders()
    saved = (bs.CODES, bs.ERROR_MODELS, bs.DECODERS, bs.__dict__.get('print'))
    bs.CODES = {'CodeA': CodeA, 'CodeB': CodeB}
    bs.ERROR_MODELS = {'Noise': Noise}
    bs.DECODERS = {'Dec': Dec}
    bs.print = lambda *a, **k: None
    eng = Engine(name=cfg)
    eng.format_mode = 'placeholder'
    try:
        with eng:
            cv = [[eng.integer(f'c{i}_{j}') for j in range(2)] for i in range(nc)]
            nv = [[eng.integer(f'n{i}_{j}') for j in range(2)] for i in range(nn)]
            dv = [[eng.integer(f'd{i}_{j}') for j in range(1)] for i in range(nd)]
            rv = [eng.integer(f'r{i}') for i in range(nr)]

            def cparams(v):
                if pform == 'dict':
                    return {'L_x': v[0], 'L_y': v[1]}
                if pform == 'dict-reordered':          # keys in another order: must still bind by name
                    return {'L_y': v[1], 'L_x': v[0]}
                if pform == 'dict-partial':            # L_y omitted, L_z given
                    return {'L_z': v[1], 'L_x': v[0]}
                return [v[0], v[1]]

            def nparams(v):
                return {'r_x': v[0], 'r_z': v[1]} if pform.startswith('dict') else [v[0], v[1]]

            def spec(code_name, cvs, nvs, dvs, rvs):
                # a single dict may stand for a one-element range; list-form parameter sets must be wrapped
                one = lambda lst: lst[0] if (len(lst) == 1 and pform.startswith('dict')) else lst
                return {
                    'label': 'x',
                    'code': {'name': code_name, 'parameters': one([cparams(v) for v in cvs])},
                    'error_model': {'name': 'Noise', 'parameters': one([nparams(v) for v in nvs])},
                    'decoder': {'name': 'Dec', 'parameters': one([{'osd': v[0]} for v in dvs])},
                    'error_rate': list(rvs),
                }

            def fn():
                if form == 'ranges':
                    data = {'ranges': spec('CodeA', cv, nv, dv, rv)}
                    want = [('CodeA', c, n_, d_, r) for c in cv for n_ in nv for d_ in dv for r in rv]
                elif form == 'list':
                    # two sub-specifications; the second uses the other class and the reversed axes
                    data = {'ranges': [spec('CodeA', cv, nv, dv, rv), spec('CodeB', cv[::-1], nv[:1], dv, rv[:1])]}
                    want = [('CodeA', c, n_, d_, r) for c in cv for n_ in nv for d_ in dv for r in rv] + \
                           [('CodeB', c, n_, d_, r) for c in cv for n_ in nv[:1] for d_ in dv for r in rv[:1]]
                else:
                    runs = []
                    want = []
                    for i in range(max(nc, nn, nd, nr)):
                        c, n_, d_, r = cv[i % nc], nv[i % nn], dv[i % nd], rv[i % nr]
                        runs.append({'label': 'x', 'code': {'name': 'CodeA', 'parameters': cparams(c)},
                                     'error_model': {'name': 'Noise', 'parameters': nparams(n_)},
                                     'decoder': {'name': 'Dec', 'parameters': {'osd': d_[0]}},
                                     'error_rate': r})
                        want.append(('CodeA', c, n_, d_, r))
                    data = {'runs': runs}
                batch = bs.read_input_dict(data, None, verbose=False)
                got = []
                for sim in batch._simulations:
                    code, noise, dec = sim.code, sim.error_model, sim.decoder
                    if pform == 'dict-partial':
                        cvals = [code.kwargs['L_x'], code.kwargs['L_z']]
                        if code.kwargs['L_y'] is not None:
                            cvals = [code.kwargs['L_x'], code.kwargs['L_y']]     # bound to the wrong name: visible below
                            cvals[1] = cvals[1] + 1000003
                    else:
                        cvals = [code.kwargs['L_x'], code.kwargs['L_y']]
                    nvals = [noise.kwargs['r_x'], noise.kwargs['r_z']] if noise.kwargs else list(noise.args)
                    wired = dec.kwargs.get('code') is code and dec.kwargs.get('error_model') is noise and \
                        dec.kwargs.get('error_rate') is sim.error_rate
                    rec_ok = sim._inputs['code']['name'] == code.kind and \
                        sim._inputs['decoder']['parameters'] == {'osd': dec.kwargs.get('osd')}
                    osd = dec.kwargs.get('osd')
                    if osd is None:                  # parameter not handed to the decoder at all: a value no request names
                        osd = -1000003
                    got.append((code.kind, cvals, nvals, [osd], sim.error_rate, wired, rec_ok))
                n_runs = len(bs.get_runs(data)) if not isinstance(data.get('ranges'), list) else None
                return got, want, n_runs
            ps = eng.explore(fn)
    finally:
        bs.CODES, bs.ERROR_MODELS, bs.DECODERS = saved[:3]
        if saved[3] is None:
            del bs.print
        else:
            bs.print = saved[3]
    col.absorb(eng)
    allv = [x.t for row in cv + nv + dv for x in row] + [x.t for x in rv]

    def wit(m):
        return dict(values={str(v): m.eval(v, model_completion=True).as_long() for v in allv})
    bad_ms, bad_wire, bad_runs = [], [], []
    for p in ps:
        if p.exc is not None:
            r, m, dt = col.solve(p.pc)
            col.record('C13/expand/no-exception', r, dt, True, wit(m) if m else None,
                       f'{type(p.exc).__name__}: {p.exc}')
            continue
        got, want, n_runs = p.value
        kinds = sorted({g[0] for g in got} | {w[0] for w in want})
        dm = []
        for kd in kinds:
            g = [tuple_terms(x[1] + x[2] + x[3] + [x[4]]) for x in got if x[0] == kd]
            w = [tuple_terms(list(x[1]) + list(x[2]) + list(x[3]) + [x[4]]) for x in want if x[0] == kd]
            dm.append(multiset_differs(g, w))
        bad_ms.append(z3_and(p.pc + [z3_or(dm)]))
        bad_wire.append(z3_and(p.pc + [z3.BoolVal(not all(g[5] and g[6] for g in got))]))
        bad_runs.append(z3_and(p.pc + [z3.BoolVal(n_runs is not None and n_runs != len(want))]))
    col.prove('C13/expand/simulations-are-exactly-the-cartesian-product', [], z3_or(bad_ms), wit,
              'multiset of (class, code params, noise params, decoder params, rate) built == requested product; '
              'parameter values symbolic (duplicates allowed)')
    col.prove('C13/expand/decoder-wired-to-its-own-code-noise-rate-and-inputs-recorded', [], z3_or(bad_wire), wit)
    col.prove('C13/expand/get_runs-count', [], z3_or(bad_runs), wit)
    return col.result()


def w_registry(cfg, tier):
    from panqec.config import CODES, DECODERS, ERROR_MODELS
    col = hz.Collector(cfg)
    for regname, reg in (('CODES', CODES), ('DECODERS', DECODERS), ('ERROR_MODELS', ERROR_MODELS)):
        for key, cls in reg.items():
            ok = cls.__name__ == key
            col.record(f'C13/registry/{regname}/{key}', 'unsat' if ok else 'sat', 0, False,
                       dict(registry=regname, key=key, resolves_to=cls.__name__) if not ok else None,
                       'finite table: name resolves to the class of that name')
    return col.result()


def w_roundtrip(cfg, tier):
    """cls(**obj.params) reproduces the same configuration (codes: same H and logicals)."""
    from panqec.config import CODES, DECODERS, ERROR_MODELS
    from checks import common
    col = hz.Collector(cfg)
    import panqec.codes as pc
    for cls_name in common.CLASSES:
        size = common.sizes(cls_name, 'quick')[-1]
        code = getattr(pc, cls_name)(*size)
        try:
            again = CODES[code.id](**code.params)
            ok = type(again) is type(code) and again.params == code.params and \
                (again.stabilizer_matrix != code.stabilizer_matrix).nnz == 0 and \
                np.array_equal(again.logicals_x, code.logicals_x)
        except Exception as ex:
            ok = False
        col.record(f'C13/roundtrip/code/{cls_name}', 'unsat' if ok else 'sat', 0, False,
                   dict(cls=cls_name, size=list(size)) if not ok else None,
                   f'CODES[id](**params) at {size} (non-cubic where the family allows)')
    from panqec.error_models import PauliErrorModel
    for kw in (dict(r_x=0.2, r_y=0.3, r_z=0.5), dict(r_x=0, r_y=0, r_z=1, deformation_name='XZZX',
                                                   deformation_kwargs={'deformation_axis': 'x'})):
        em = PauliErrorModel(**kw)
        again = ERROR_MODELS[em.id](**em.params)
        ok = again.params == em.params and again.label == em.label
        col.record(f'C13/roundtrip/noise/{em.label}', 'unsat' if ok else 'sat', 0, False,
                   dict(noise=em.label) if not ok else None, '')
    code2 = pc.Toric2DCode(2, 3)
    code3 = pc.Toric3DCode(2, 2, 2)
    codex = pc.XCubeCode(2, 2, 2)
    coder = pc.RotatedPlanar3DCode(2, 2, 2)
    em = PauliErrorModel(1 / 3, 1 / 3, 1 / 3)
    for dname, dcls in DECODERS.items():
        allowed = dcls.allowed_codes
        code = code2
        if allowed is not None:
            code = {'Toric2DCode': code2, 'Toric3DCode': code3, 'XCubeCode': codex,
                    'RotatedPlanar3DCode': coder}.get(allowed[0], code2)
        try:
            dec = dcls(code, em, 0.1)
            again = dcls(code, em, 0.1, **dec.params)
            ok = again.params == dec.params and again.id == dec.id == dname
        except Exception as ex:
            ok = False
        col.record(f'C13/roundtrip/decoder/{dname}', 'unsat' if ok else 'sat', 0, False,
                   dict(decoder=dname) if not ok else None, 'DECODERS[id](code, noise, rate, **params)')
    return col.result()


NOISE_CANDIDATES = [
    {'r_x': 1 / 3, 'r_y': 1 / 3, 'r_z': 1 / 3},
    {'r_x': 0.1, 'r_y': 0.1, 'r_z': 0.8, 'deformation_name': 'XZZX'},
    {'r_x': 0.1, 'r_y': 0.1, 'r_z': 0.8, 'deformation_name': 'XZZX', 'deformation_kwargs': {'deformation_axis': 'x'}},
    {'r_x': 0.1, 'r_y': 0.1, 'r_z': 0.8, 'deformation_name': 'XZZX', 'deformation_kwargs': {'deformation_axis': 'y'}},
    {'r_x': 0.2, 'r_y': 0.3, 'r_z': 0.5, 'deformation_name': 'XY'},
]
DECODER_CANDIDATES = [('MatchingDecoder', {}), ('BeliefPropagationOSDDecoder', {'max_bp_iter': 7, 'osd_order': 0}),
                      ('BeliefPropagationOSDDecoder', {'max_bp_iter': 9, 'channel_update': True})]
CODE_CANDIDATES = [('Toric2DCode', {'L_x': 2, 'L_y': 3}), ('Planar2DCode', {'L_x': 3, 'L_y': 2}),
                   ('RotatedPlanar2DCode', {'L_x': 2, 'L_y': 2})]


def build_real(form, ni, di, ci):
    """The real read_input_dict (real registries, real classes) on a specification whose noise / decoder
    entries are the candidates with the given indices; returns (requested, built) descriptions."""
    import copy
    import panqec.simulation._batch_simulation as bs
    from panqec.error_models import PauliErrorModel
    cname, cpar = CODE_CANDIDATES[ci]
    noise = [copy.deepcopy(NOISE_CANDIDATES[i]) for i in ni]
    decs = [(DECODER_CANDIDATES[i][0], copy.deepcopy(DECODER_CANDIDATES[i][1])) for i in di]
    rates = [0.05, 0.1]
    want = []
    if form == 'ranges':
        # one decoder class per sub-specification (the format names one class per entry)
        subs = []
        for dname in dict.fromkeys(d for d, _ in decs):
            dp = [p for d, p in decs if d == dname]
            subs.append({'label': 'x', 'code': {'name': cname, 'parameters': [dict(cpar)]},
                         'error_model': {'name': 'PauliErrorModel', 'parameters': copy.deepcopy(noise)},
                         'decoder': {'name': dname, 'parameters': copy.deepcopy(dp)}, 'error_rate': list(rates)})
            want += [(cname, cpar, n_, dname, p_, r) for n_ in noise for p_ in dp for r in rates]
        data = {'ranges': subs if len(subs) > 1 else subs[0]}
    else:
        runs = []
        for j in range(max(len(noise), len(decs))):
            n_, (dname, p_), r = noise[j % len(noise)], decs[j % len(decs)], rates[j % 2]
            runs.append({'label': 'x', 'code': {'name': cname, 'parameters': dict(cpar)},
                         'error_model': {'name': 'PauliErrorModel', 'parameters': copy.deepcopy(n_)},
                         'decoder': {'name': dname, 'parameters': copy.deepcopy(p_)}, 'error_rate': r})
            want.append((cname, cpar, n_, dname, p_, r))
        data = {'runs': runs}
    import contextlib
    import io
    with contextlib.redirect_stdout(io.StringIO()):
        batch = bs.read_input_dict(copy.deepcopy(data), None, verbose=False)
    norm = lambda n_: (round(n_['r_x'], 12), round(n_['r_y'], 12), round(n_['r_z'], 12), n_.get('deformation_name'),
                       tuple(sorted((n_.get('deformation_kwargs') or {}).items())))
    got = []
    for sim in batch._simulations:
        em, dec, code = sim.error_model, sim.decoder, sim.code
        # what the object IS (attributes the behaviour depends on) and what is RECORDED for the results file
        is_ = (type(code).__name__, tuple(code.size), norm(dict(zip(('r_x', 'r_y', 'r_z'), em.direction),
               deformation_name=em._deformation_name, deformation_kwargs=em._deformation_kwargs)),
               type(dec).__name__, sim.error_rate)
        rec = sim._inputs if hasattr(sim, '_inputs') else {}
        recn = rec.get('error_model', {}).get('parameters', {})
        ref = PauliErrorModel(**copy.deepcopy(recn)) if isinstance(recn, dict) and recn else None
        # the distribution the built model yields must be the one a model built from the REQUEST yields
        got.append(dict(is_=is_, recorded=norm(recn) if recn else None,
                        dec_params={k_: v for k_, v in dec.params.items()},
                        dist=[np.asarray(a).round(12).tolist() for a in em.probability_distribution(code, 0.1)]))
    wnt = []
    for (cn, cp, n_, dn, p_, r) in want:
        code = bs.CODES[cn](**cp)
        ref = PauliErrorModel(**copy.deepcopy(n_))
        wnt.append(dict(is_=(cn, tuple(code.size), norm(n_), dn, r), recorded=norm(n_), dec_params=p_,
                        dist=[np.asarray(a).round(12).tolist() for a in ref.probability_distribution(code, 0.1)]))
    return wnt, got


def real_mismatch(wnt, got):
    if len(wnt) != len(got):
        return f'{len(got)} simulations built, {len(wnt)} requested'
    key = lambda d: json.dumps([d['is_'], d['recorded'], d['dist']], sort_keys=True, default=str)
    if sorted(map(key, wnt)) != sorted(map(key, got)):
        for w_, g_ in zip(sorted(wnt, key=key), sorted(got, key=key)):
            if key(w_) != key(g_):
                return f'requested {w_["is_"]} recorded {w_["recorded"]} / built {g_["is_"]} recorded {g_["recorded"]}' \
                       f'{" (distribution differs)" if w_["dist"] != g_["dist"] else ""}'
    for w_ in wnt:
        if not any(g_['is_'] == w_['is_'] and all(g_['dec_params'].get(k_) == v for k_, v in w_['dec_params'].items())
                   for g_ in got):
            return f'no built simulation carries decoder parameters {w_["dec_params"]} for {w_["is_"]}'
    return None


def w_real(cfg, tier):
    """cfg = 'real form=<ranges|runs> k=<entries>': the REAL registries and classes.  The solver chooses
    (realised) which noise / decoder candidates make up the specification and in which order (repetition
    allowed); every built simulation must BE (direction, deformation name and kwargs, per-qubit distribution,
    decoder class and parameters, code size, rate) and RECORD exactly one requested combination, each once."""
    import panqec.simulation._batch_simulation as bs
    parts = dict(p.split('=') for p in cfg.split()[1:])
    form, kk = parts['form'], int(parts['k'])
    col = hz.Collector(cfg)
    col.encoded(bs.read_input_dict, bs._parse_error_model_dict, bs._parse_decoder_dict, bs._parse_code_dict,
                bs.expand_input_ranges)
    eng = Engine(name=cfg, max_paths=20000)
    with eng:
        ni = [eng.integer(f'noise{j}', 0, len(NOISE_CANDIDATES) - 1) for j in range(kk)]
        di = [eng.integer(f'dec{j}', 0, len(DECODER_CANDIDATES) - 1) for j in range(2)]
        ci = eng.integer('code', 0, len(CODE_CANDIDATES) - 1)

        def fn():
            a, b, c = [int(x) for x in ni], [int(x) for x in di], int(ci)
            if form == 'ranges' and (len(set(a)) < len(a) or b[0] == b[1]):
                return a, b, c, None          # a range listing the same entry twice asks for duplicates: skipped
            return a, b, c, real_mismatch(*build_real(form, a, b, c))
        ps = eng.explore(fn)
    col.absorb(eng)
    bad, w = [], [None]
    for p in ps:
        if p.exc is not None:
            bad.append(z3_and(p.pc))
            w[0] = w[0] or dict(real=True, form=form, exception=f'{type(p.exc).__name__}: {p.exc}')
            continue
        a, b, c, mis = p.value
        bad.append(z3_and(p.pc + [z3.BoolVal(mis is not None)]))
        if mis is not None and (w[0] is None or 'noise' not in w[0]):
            w[0] = dict(real=True, form=form, noise=a, decoders=b, code=c, mismatch=mis)
    col.prove(f'C13/real/{form}/every-simulation-is-and-records-exactly-one-requested-combination', eng.base,
              z3_or(bad), lambda m: w[0],
              f'{len(ps)} realised specifications ({kk} noise entries out of {len(NOISE_CANDIDATES)} candidates incl. '
              f'deformation kwargs, 2 decoder entries out of {len(DECODER_CANDIDATES)}, {len(CODE_CANDIDATES)} codes), real classes')
    return col.result()


def worker(cfg, tier='quick'):
    return {'expand': w_expand, 'registry': w_registry, 'roundtrip': w_roundtrip, 'real': w_real}[cfg.split()[0]](cfg, tier)


def replay(path):
    with open(path) as f:
        d = json.load(f)
    w, oid, cfg = d['witness'], d['oid'], d['config']
    bad = False
    try:
        if w.get('real') and 'noise' in w:
            mis = real_mismatch(*build_real(w['form'], w['noise'], w['decoders'], w['code']))
            print('specification: noise entries', w['noise'], 'decoder entries', w['decoders'], 'code', w['code'])
            print('mismatch:', mis)
            bad = mis is not None
        elif cfg.startswith('registry'):
            from panqec import config
            reg = getattr(config, w['registry'])
            bad = reg[w['key']].__name__ != w['key']
            print(w['key'], '->', reg[w['key']].__name__)
        else:
            # re-run the worker in this fresh interpreter: the obligation must still be sat
            res = worker(cfg)
            bad = any(o['oid'] == oid and o['verdict'] == 'sat' for o in res['obs'])
    except Exception as ex:
        print('exception on replay:', type(ex).__name__, ex)
        bad = True
    print('REPLAY', 'reproduced' if bad else 'not-reproduced', oid, cfg)
    return 0


def configs(tier):
    out = ['registry', 'roundtrip', 'real form=ranges k=2', 'real form=runs k=2']
    if tier != 'quick':
        out += ['real form=ranges k=3', 'real form=runs k=3']
    hi = 2 if tier == 'quick' else 4
    axes = list(itertools.product(range(1, hi + 1), repeat=4))
    if tier == 'quick':
        axes = [a for a in axes if sum(a) <= 6 or a == (2, 2, 2, 2)]
    for (c, n, d, r) in axes:
        out.append(f'expand form=ranges c={c} n={n} d={d} r={r} pform=dict')
    for (c, n, d, r) in [(1, 1, 1, 1), (2, 1, 2, 2), (2, 2, 1, 3), (3, 2, 2, 1)][:3 if tier == 'quick' else 4]:
        out.append(f'expand form=list c={c} n={n} d={d} r={r} pform=dict')
        out.append(f'expand form=ranges c={c} n={n} d={d} r={r} pform=list')
        out.append(f'expand form=runs c={c} n={n} d={d} r={r} pform=dict')
        out.append(f'expand form=ranges c={c} n={n} d={d} r={r} pform=dict-reordered')
        out.append(f'expand form=runs c={c} n={n} d={d} r={r} pform=dict-partial')
    return out


def main(argv=None):
    a = hz.std_args(argv)
    if a.replay:
        return replay(a.replay)
    t0 = time.time()
    cfgs = configs(a.tier)
    if a.only:
        cfgs = [c for c in cfgs if a.only in c]
    res = hz.run_configs('checks.c13', 'worker', cfgs, dict(tier=a.tier), jobs=a.jobs)
    return hz.finish(
        PID, a.tier, a.seed, res, t0,
        assumptions=['parameter values are opaque integers (the expansion never inspects them)',
                     'registries replaced by recorder classes for the expansion part; the real registries and real '
                     'classes are used for the name table and the params round-trips (finite, ground)'],
        bounds=dict(axes='1..2 values per axis (quick) / 1..3 (thorough); forms: single ranges dict, list of ranges, '
                         'explicit runs; dict and list parameter forms'),
        stubs=['CODES / ERROR_MODELS / DECODERS inside _batch_simulation -> recorder classes', 'print'],
        outside=['more than 3 values per axis', 'the splitting method'])


if __name__ == '__main__':
    sys.exit(main())
