"""C12 — interrupted batch runs resume without losing or duplicating trials.

Real functions executed: BatchSimulation.run/_run/save_results/_save_results/_update_file/save_file/
load_results, BaseSimulation.load_results/_find_current_simulation/load_results_from_dict,
DirectSimulation._run, utils.save_json/load_json (real json / gzip on the bytes of each path) on an
in-memory file system.  Symbolic (solver-chosen, realised): target trial counts n1 <= n2, save
frequency, whether the specification grows, the crash point (an index into the crash opportunities of
the first run) and the crash kind (kill / KeyboardInterrupt).  This is bounded fault-schedule
exploration of the real code: the solver enumerates the feasible schedules."""
import gzip as real_gzip
import io
import json
import sys
import time

import numpy as np
import z3

from symx import Engine
from symx.core import z3_and, z3_or, engine
from symx import harness as hz

PID = 'C12'


class Killed(BaseException):
    """The process was killed: no handler runs, the file system keeps what was written so far."""


class FS:
    def __init__(self):
        self.files = {}
        self.dead = False
        self.hook = lambda where: None
        self.completed_saves = []      # snapshots of the target file after each completed write

    # -- plain files
    def open(self, name, mode='r', *a, **k):
        fs = self
        if 'w' in mode:
            binary = 'b' in mode

            class W:
                def __init__(w):
                    w.buf = b'' if binary else ''
                    fs.hook(f'before-open-w {name}')
                    if not fs.dead:
                        fs.files[name] = b'' if binary else ''     # truncation happens at open
                    fs.hook(f'after-truncate {name}')

                def write(w, data):
                    w.buf += data
                    return len(data)

                def close(w):
                    # byte-offset classes of a torn write: nothing, an interior prefix, everything
                    if fs.dead:
                        return
                    half = w.buf[:max(1, len(w.buf) // 2)]
                    fs.files[name] = half
                    fs.hook(f'mid-write {name}')
                    if fs.dead:
                        return
                    fs.files[name] = w.buf
                    fs.hook(f'after-write {name}')

                def __enter__(w):
                    return w

                def __exit__(w, *exc):
                    w.close()
                    return False
            return W()
        if name not in self.files:
            raise FileNotFoundError(name)
        data = self.files[name]
        return io.BytesIO(data) if isinstance(data, bytes) else io.StringIO(data)

    def isfile(self, name):
        return name in self.files

    def replace(self, src, dst):
        self.hook(f'before-replace {dst}')
        if not self.dead:
            self.files[dst] = self.files.pop(src)
        self.hook(f'after-replace {dst}')


class FakeGzip:
    """gzip.open on the in-memory FS: real (de)compression of the stored bytes."""

    def __init__(self, fs):
        self.fs = fs
        self.BadGzipFile = real_gzip.BadGzipFile

    def __getattr__(self, k):
        return getattr(real_gzip, k)

    def open(self, name, mode='rb', *a, **k):
        fs = self.fs
        if 'w' in mode:
            raw = fs.open(name, 'wb')

            class GW:
                def __init__(g):
                    g.data = b''

                def write(g, d):
                    g.data += d
                    return len(d)

                def close(g):
                    raw.write(real_gzip.compress(g.data))
                    raw.close()

                def __enter__(g):
                    return g

                def __exit__(g, *exc):
                    g.close()
                    return False
            return GW()
        if name not in fs.files:
            raise FileNotFoundError(name)
        return real_gzip.GzipFile(fileobj=io.BytesIO(fs.files[name]), mode='rb')


class FakeOs:
    def __init__(self, fs):
        self.fs = fs

        class P:
            def __getattr__(p, k):
                import os
                return getattr(os.path, k)

            def isfile(p, n):
                return fs.isfile(n)

            def exists(p, n):
                return True
        self.path = P()

    def __getattr__(self, k):
        import os
        return getattr(os, k)

    def makedirs(self, *a, **k):
        pass

    def replace(self, src, dst):
        self.fs.replace(src, dst)

    def remove(self, n):
        self.fs.files.pop(n, None)


class StubCode:
    def __init__(self, L):
        self.L = L
        self.id = 'StubCode'
        self.params = {'L_x': L}
        self.n, self.k, self.d = L, 1, L


class StubNoise:
    """var = 1: explicit free-form option (a nested dict that is a strict superset of the default's)."""
    id = 'StubNoise'
    label = 'noise'

    def __init__(self, var=0):
        self.var = var
        self.params = {'r_z': 1, 'deformation_kwargs': {'deformation_axis': 'x'} if var else {}}


class StubDecoder:
    id = 'StubDecoder'
    params = {}
    label = 'dec'


def scenario(mods, fs, fname, sims_spec, n_trials, save_frequency, counter):
    """Build a BatchSimulation for the given spec [(L, rate), ...] and run it to n_trials."""
    bsm, dsm = mods
    batch = bsm.BatchSimulation(fname, save_frequency=save_frequency, verbose=False)
    for idx, (L, rate, var) in enumerate(sims_spec):
        sim = dsm.DirectSimulation(StubCode(L), StubNoise(var), StubDecoder(), rate, verbose=False,
                                   compress=fname.endswith('.gz'))
        sim._tag = idx
        batch.append(sim)

    def run_once(code, error_model, decoder, error_rate, rng=None):
        fs.hook('before-trial')
        counter[0] += 1
        tid = [code.L, int(round(error_rate * 1000)) + error_model.var, counter[0]]   # (which simulation, serial number)
        return {'error': None, 'syndrome': None, 'correction': None, 'effective_error': tid,
                'success': True, 'codespace': True}
    dsm.run_once = run_once
    if not getattr(fs, 'trace_lines', False):
        batch.run(n_trials)
        return batch
    # KeyboardInterrupt is asynchronous: it can arrive between any two lines.  Every line of the functions
    # that hold the simulation state (the trial loop, the append of a trial's values, load / save / pause
    # handling) is a crash opportunity of its own.
    import sys as _sys
    import panqec.simulation._base_simulation as _bas
    traced = set()
    for cls in (dsm.DirectSimulation, bsm.BatchSimulation, _bas.BaseSimulation):
        for name in ('_run', 'run', 'save_results', '_save_results', 'load_results', 'load_results_from_dict',
                     '_update_file', 'save_file'):
            f = cls.__dict__.get(name)
            if f is not None and hasattr(f, '__code__'):
                traced.add(f.__code__)

    def local(frame, event, arg):
        if event == 'line':
            fs.hook(f'line:{frame.f_code.co_name}:{frame.f_lineno}')
        return local

    def tracer(frame, event, arg):
        return local if frame.f_code in traced else None
    old = _sys.gettrace()
    _sys.settrace(tracer)
    try:
        batch.run(n_trials)
    finally:
        _sys.settrace(old)
    return batch


def worker(cfg, tier='quick'):
    import panqec.utils as ut
    import panqec.simulation._batch_simulation as bsm
    import panqec.simulation._base_simulation as bas
    import panqec.simulation._direct_simulation as dsm
    parts = dict(p.split('=') for p in cfg.split()[1:])
    ext = parts['ext']
    nmax = int(parts['nmax'])
    grow = parts.get('grow', '0') == '1'
    mode = parts.get('mode', 'fresh')          # fresh: every restart is a new process; same: reruns in one interpreter
    lines = parts.get('lines', '0') == '1'     # KeyboardInterrupt may also arrive between any two lines of the state-holding functions
    fname = '/out/results' + ext
    col = hz.Collector(cfg)
    B = bsm.BatchSimulation
    col.encoded(B.run, B._run, B.save_results, B._save_results, B._update_file, B.save_file, B.load_results,
                bas.BaseSimulation.load_results, bas.BaseSimulation._find_current_simulation,
                bas.BaseSimulation.load_results_from_dict, dsm.DirectSimulation._run, ut.save_json, ut.load_json)
    saved = dict(ut_open=ut.__dict__.get('open'), ut_gzip=ut.gzip, ut_os=ut.os, bsm_os=bsm.os, bas_os=bas.os,
                 run_once=dsm.run_once, bsm_print=bsm.__dict__.get('print'), bas_print=bas.__dict__.get('print'))
    # the first simulation carries an explicit noise option; the grown specification adds, among others, the
    # same (code, rate) with the default option: nothing of the first may be adopted by it
    spec1 = [(2, 0.1, 1), (3, 0.1, 0)]
    spec2 = spec1 + ([(4, 0.1, 0), (2, 0.2, 0), (2, 0.1, 0)] if grow else [])
    eng = Engine(name=cfg, max_paths=20000)
    try:
        bsm.print = lambda *a, **k: None
        bas.print = lambda *a, **k: None
        with eng:
            n1 = eng.integer('n1', 1, nmax)
            n2 = eng.integer('n2', 1, nmax)
            n3 = eng.integer('n3', 0, nmax)         # 0: no third run
            sf = eng.integer('save_frequency', 1, 3)
            cp = eng.integer('crash_point', 0, 100000)
            kind = eng.integer('kind', 0, 1)        # 0 = kill, 1 = KeyboardInterrupt
            eng.assume_base((n1 <= n2).t)
            eng.assume_base(z3.Or(n3.t == 0, n3.t >= n2.t))
            if mode == 'fresh':
                eng.assume_base(n3.t == 0)

            def new_process():
                """A process restart: reload the panqec modules involved, so that no module-level or
                class-level state survives, and re-install the environment stubs."""
                import importlib
                for m in (ut, bas, dsm, bsm):
                    importlib.reload(m)
                bsm.print = lambda *a, **k: None
                bas.print = lambda *a, **k: None

            def fn():
                N1, N2, SF, KIND, N3 = int(n1), int(n2), int(sf), int(kind), int(n3)

                def install(fs):
                    ut.open = fs.open
                    ut.gzip = FakeGzip(fs)
                    ut.os = FakeOs(fs)
                    bsm.os = FakeOs(fs)
                    bas.os = FakeOs(fs)
                # every path is its own history: start from a fresh process image
                new_process()
                # dry run: count the crash opportunities of the first run
                fs0 = FS()
                fs0.trace_lines = (lines and KIND == 1)      # line-level opportunities only matter for KeyboardInterrupt
                cnt = [0]
                fs0.hook = lambda where: cnt.__setitem__(0, cnt[0] + 1)
                install(fs0)
                scenario((bsm, dsm), fs0, '/dry/run' + ext, spec1, N1, SF, [0])     # its own path: nothing is shared
                new_process()
                n_opp = cnt[0]
                eng.assume((cp <= n_opp) & (cp >= 0))
                CP = int(cp)                       # CP == n_opp: no crash in the first run
                # first run with the crash
                fs = FS()
                fs.trace_lines = (lines and KIND == 1)
                seen = [0]
                last_saved = {}

                def hook(where):
                    if where.startswith('after-write') or where.startswith('after-replace'):
                        if fname in fs.files:
                            try:
                                data = ut.load_json(fname) if not fs.dead else None
                            except Exception:
                                data = None
                            if data is not None:
                                last_saved['data'] = data
                    if seen[0] == CP:
                        seen[0] += 1
                        if KIND == 0:
                            fs.dead = True
                            raise Killed()
                        raise KeyboardInterrupt()
                    seen[0] += 1
                fs.hook = hook
                install(fs)
                counter = [0]
                crashed = None
                try:
                    scenario((bsm, dsm), fs, fname, spec1, N1, SF, counter)
                except Killed:
                    crashed = 'killed'
                except KeyboardInterrupt:
                    crashed = 'interrupt-escaped'
                # restart: same file system, same (or grown) specification, no faults; a new process
                # (modules reloaded: no in-memory state survives) or the same interpreter
                fs.dead = False
                fs.hook = lambda where: None
                fs.trace_lines = False
                if mode == 'fresh' or crashed == 'killed':
                    new_process()
                install(fs)
                err = None
                final = None
                try:
                    batch2 = scenario((bsm, dsm), fs, fname, spec2, N2, SF, counter)
                    if N3:
                        batch2 = scenario((bsm, dsm), fs, fname, spec2, N3, SF, counter)
                    final = [(s._tag, s.results['n_runs'], [list(map(int, x)) for x in s.results['effective_error']],
                              len(s.results['success']), len(s.results['codespace'])) for s in batch2]
                except Exception as ex:          # noqa
                    err = f'{type(ex).__name__}: {ex}'
                try:
                    on_disk = ut.load_json(fname) if fs.isfile(fname) else None
                except Exception:                # noqa
                    on_disk = None
                return dict(N1=N1, N2=(N3 or N2), N2a=N2, N3=N3, SF=SF, CP=CP, KIND=KIND, n_opp=n_opp, crashed=crashed, err=err, final=final,
                            last_saved=last_saved.get('data'), on_disk=on_disk)
            ps = eng.explore(fn)
    finally:
        if saved['ut_open'] is None:
            ut.__dict__.pop('open', None)
        else:
            ut.open = saved['ut_open']
        ut.gzip, ut.os, bsm.os, bas.os = saved['ut_gzip'], saved['ut_os'], saved['bsm_os'], saved['bas_os']
        dsm.run_once = saved['run_once']
        for m, k_ in ((bsm, 'bsm_print'), (bas, 'bas_print')):
            if saved[k_] is None:
                m.__dict__.pop('print', None)
            else:
                m.print = saved[k_]
    col.absorb(eng)

    def wit_of(v):
        return dict(n1=v['N1'], n2=v['N2a'], n3=v['N3'], save_frequency=v['SF'], crash_point=v['CP'], kind=v['KIND'],
                    opportunities=v['n_opp'], ext=ext, grow=grow, mode=mode, lines=lines)
    kinds = {'completes-without-error': [], 'exact-trial-counts': [], 'last-completed-save-is-a-prefix': [],
             'no-trial-counted-twice': [], 'foreign-records-not-adopted': [], 'completed-run-is-on-disk': []}
    wits = {k: None for k in kinds}
    for p in ps:
        if p.exc is not None:
            col.record('C12/harness-path', 'unknown', 0, True, None, f'{type(p.exc).__name__}: {p.exc}')
            continue
        v = p.value
        checks = {}
        checks['completes-without-error'] = v['err'] is None
        if v['final'] is not None:
            spec = spec2
            checks['exact-trial-counts'] = all(nr == v['N2'] and len(tr) == v['N2'] and ls == v['N2'] and lc == v['N2']
                                               for _, nr, tr, ls, lc in v['final'])
            allids = [tuple(t) for _, _, tr, _, _ in v['final'] for t in tr]
            checks['no-trial-counted-twice'] = len(allids) == len(set(allids))
            checks['foreign-records-not-adopted'] = all(
                t[0] == spec[tag][0] and t[1] == int(round(spec[tag][1] * 1000)) + spec[tag][2]
                for tag, _, tr, _, _ in v['final'] for t in tr)
            ok_prefix = True
            if v['last_saved']:
                for rec in v['last_saved']:
                    L = rec['inputs']['code']['parameters']['L_x']
                    rate = rec['inputs']['error_rate']
                    var = 1 if rec['inputs']['error_model']['parameters'].get('deformation_kwargs') else 0
                    saved_tr = [list(map(int, x)) for x in rec['results']['effective_error']]
                    for tag, _, tr, _, _ in v['final']:
                        if spec[tag] == (L, rate, var):
                            if tr[:len(saved_tr)] != saved_tr:
                                ok_prefix = False
            checks['last-completed-save-is-a-prefix'] = ok_prefix
            # a run that reached its target has saved it: the output file exists and holds every trial
            disk_ok = v['on_disk'] is not None and len(v['on_disk']) == len(spec) and all(
                rec['results']['n_runs'] == v['N2'] and len(rec['results']['effective_error']) == v['N2']
                for rec in v['on_disk'])
            checks['completed-run-is-on-disk'] = disk_ok
        for k_, ok in checks.items():
            kinds[k_].append(z3_and(p.pc + [z3.BoolVal(not ok)]))
            if not ok and wits[k_] is None:
                wits[k_] = wit_of(v)
    for k_, alts in kinds.items():
        col.prove(f'C12/{k_}', eng.base, z3_or(alts), (lambda m, k_=k_: wits[k_]),
                  f'{len(ps)} feasible schedules (n1, n2, save_frequency, crash point, crash kind)')
    return col.result()


def replay(path):
    """Re-run the schedule concretely (the worker's scenario with the values pinned)."""
    with open(path) as f:
        d = json.load(f)
    w, oid, cfg = d['witness'], d['oid'], d['config']
    bad = False
    try:
        import panqec.utils as ut
        import panqec.simulation._batch_simulation as bsm
        import panqec.simulation._base_simulation as bas
        import panqec.simulation._direct_simulation as dsm
        ext, grow = w['ext'], w['grow']
        fname = '/out/results' + ext
        spec1 = [(2, 0.1, 1), (3, 0.1, 0)]
        spec2 = spec1 + ([(4, 0.1, 0), (2, 0.2, 0), (2, 0.1, 0)] if grow else [])
        fs = FS()
        seen = [0]
        last = {}

        def hook(where):
            if (where.startswith('after-write') or where.startswith('after-replace')) and fname in fs.files:
                try:
                    last['data'] = ut.load_json(fname)
                except Exception:
                    pass
            if seen[0] == w['crash_point']:
                seen[0] += 1
                if w['kind'] == 0:
                    fs.dead = True
                    raise Killed()
                raise KeyboardInterrupt()
            seen[0] += 1
        fs.hook = hook
        fs.trace_lines = (w['kind'] == 1 and w.get('lines', False))
        ut.open, ut.gzip, ut.os, bsm.os, bas.os = fs.open, FakeGzip(fs), FakeOs(fs), FakeOs(fs), FakeOs(fs)
        bsm.print = bas.print = lambda *a, **k: None
        counter = [0]
        killed = False
        try:
            scenario((bsm, dsm), fs, fname, spec1, w['n1'], w['save_frequency'], counter)
        except Killed:
            killed = True
        except KeyboardInterrupt:
            pass
        fs.dead = False
        fs.hook = lambda where: None
        fs.trace_lines = False
        print('file after the first run:', repr(fs.files.get(fname))[:120])
        if w.get('mode', 'fresh') == 'fresh' or killed:
            import importlib
            for m_ in (ut, bas, dsm, bsm):
                importlib.reload(m_)
            ut.open, ut.gzip, ut.os, bsm.os, bas.os = fs.open, FakeGzip(fs), FakeOs(fs), FakeOs(fs), FakeOs(fs)
            bsm.print = bas.print = lambda *a, **k: None
        try:
            b2 = scenario((bsm, dsm), fs, fname, spec2, w['n2'], w['save_frequency'], counter)
            if w.get('n3'):
                b2 = scenario((bsm, dsm), fs, fname, spec2, w['n3'], w['save_frequency'], counter)
                w['n2'] = w['n3']
            counts = [s.results['n_runs'] for s in b2]
            print('restart finished; n_runs per simulation', counts, 'requested', w['n2'])
            ids = [tuple(map(int, t)) for s in b2 for t in s.results['effective_error']]
            if 'exact' in oid:
                lens = [(len(s_.results['effective_error']), len(s_.results['success']), len(s_.results['codespace']))
                        for s_ in b2]
                print('list lengths (effective_error, success, codespace) per simulation', lens)
                bad = any(c != w['n2'] for c in counts) or any(x != w['n2'] for t_ in lens for x in t_)
            elif 'twice' in oid:
                bad = len(ids) != len(set(ids))
            elif 'prefix' in oid:
                for rec in last.get('data') or []:
                    for s in b2:
                        if s._inputs == rec['inputs']:
                            st = [list(map(int, x)) for x in rec['results']['effective_error']]
                            got = [list(map(int, x)) for x in s.results['effective_error']]
                            if got[:len(st)] != st:
                                print('saved', st, 'after restart', got)
                                bad = True
            elif 'foreign' in oid:
                bad = any(t[0] != s.code.L or t[1] != int(round(s.error_rate * 1000)) + s.error_model.var
                          for s in b2 for t in s.results['effective_error'])
            elif 'on-disk' in oid:
                data = ut.load_json(fname) if fs.isfile(fname) else None
                print('on disk after the completed run:', None if data is None else [r_['results']['n_runs'] for r_ in data])
                bad = data is None or len(data) != len(spec2) or any(
                    r_['results']['n_runs'] != w['n2'] or len(r_['results']['effective_error']) != w['n2'] for r_ in data)
        except Exception as ex:
            print('restart raised', type(ex).__name__, ex)
            bad = 'completes' in oid or True
    except Exception as ex:
        print('exception on replay:', type(ex).__name__, ex)
        bad = True
    print('REPLAY', 'reproduced' if bad else 'not-reproduced', oid, cfg)
    return 0


def configs(tier):
    out = ['crash ext=.json nmax=3 grow=0', 'crash ext=.json.gz nmax=3 grow=0', 'crash ext=.json nmax=3 grow=1',
           'crash ext=.json nmax=2 grow=0 mode=same', 'crash ext=.json.gz nmax=2 grow=1 mode=same',
           'crash ext=.json nmax=2 grow=0 lines=1', 'crash ext=.json.gz nmax=2 grow=0 lines=1']
    if tier != 'quick':
        out += ['crash ext=.json.gz nmax=3 grow=1', 'crash ext=.json nmax=4 grow=0', 'crash ext=.json.gz nmax=4 grow=1',
                'crash ext=.json nmax=3 grow=1 mode=same', 'crash ext=.json.gz nmax=3 grow=0 mode=same',
                'crash ext=.json nmax=5 grow=0', 'crash ext=.json nmax=3 grow=1 lines=1', 'crash ext=.json.gz nmax=2 grow=0 mode=same lines=1']
    return out


def main(argv=None):
    a = hz.std_args(argv)
    if a.replay:
        return replay(a.replay)
    t0 = time.time()
    cfgs = configs(a.tier)
    if a.only:
        cfgs = [c for c in cfgs if a.only in c]
    res = hz.run_configs('checks.c12', 'worker', cfgs, dict(tier=a.tier), jobs=a.jobs)
    return hz.finish(
        PID, a.tier, a.seed, res, t0, level='model_checking',
        assumptions=['POSIX file semantics: open(..., "w") truncates at once, a torn write leaves nothing / an interior '
                     'prefix / everything, rename is atomic, a killed process runs no handlers',
                     'byte-offset classes {0, interior, complete} stand for every byte offset of a write (an interior '
                     'prefix of the serialised JSON / gzip stream is what the real json / gzip modules see)',
                     'run_once is a stub returning serially numbered trials tagged with their simulation',
                     'the restart is fault-free (one crash per history)',
                     'a restart in a new process is modelled by reloading the panqec modules involved (no in-memory '
                     'state survives); mode=same keeps the interpreter and adds a third run'],
        bounds=dict(n_trials='n1 <= n2 <= 3 (quick) / 4 (thorough)', save_frequency='1..3', simulations='2 (+2 when the '
                    'specification grows)', crash='every crash opportunity of the first run (before each trial, before / '
                    'after truncation, mid-write, after write, before / after rename) x {kill, KeyboardInterrupt} + no crash; '
                    'configurations with lines=1: additionally a KeyboardInterrupt before every line of DirectSimulation._run, '
                    'BatchSimulation.run / _run / save / load and BaseSimulation.load_results*'),
        stubs=['open / gzip / os inside panqec.utils, os inside _batch_simulation and _base_simulation -> in-memory FS',
               '_direct_simulation.run_once -> numbered trials'],
        outside=['several crashes in one history', 'crash between two Python statements other than the listed opportunities',
                 'the solver only enumerates the finite schedule space here (bounded fault-schedule exploration)'])


if __name__ == '__main__':
    sys.exit(main())
