"""C20 — the visualizer backend serves every offered choice with faithful data.

Real functions executed symbolically: StabilizerCode.qubit_representation / stabilizer_representation
and every per-class override, stabilizer_type, qubit_axis — with SYMBOLIC qubit / stabilizer
locations, for every code the GUI lists x its deformation names x {kitaev, rotated} x menu sizes.
GUI.send_correction / send_random_errors / _instantiate_code run through the Flask test client with
recorder stubs and solver-chosen (realised) menu options; send_decoder_names / send_code_data are
finite tables checked as ground facts through the same client."""
import itertools
import json
import sys
import time

import numpy as np
import z3

from symx import Engine, install
from symx import lattice as lt
from symx.core import z3_and, z3_or, SymInt
from symx import harness as hz
from checks import common

PID = 'C20'
NOISE = ['Pure X', 'Pure Y', 'Pure Z', 'Depolarizing']


def gui_table():
    import panqec.gui._gui as g
    return g


def menu_sizes(cls_name, tier):
    import panqec.codes as pc
    dim = getattr(pc, cls_name).dimension
    Ls = [2, 3, 4] if tier == 'quick' else [2, 3, 4, 5, 6]
    out = []
    for L in Ls:
        for s in ((L,) * dim, (L + 1,) + (L,) * (dim - 1)):        # plain and "coprime" menu option
            if common.in_family(cls_name, s) and not (cls_name in common.RECTANGULAR_DEFECT and len(set(s)) > 1
                                                      and cls_name == 'Color666ToricCode'):
                n_est = np.prod(s) * (3 if dim == 3 else 2)
                if n_est <= (120 if tier == 'quick' else 500) or L == 2:
                    out.append(s)
    return out[:4] if tier == 'quick' else out


Q_KEYS = {'object', 'color', 'opacity', 'params', 'location'}
S_KEYS = {'object', 'color', 'opacity', 'params', 'location', 'type'}


def complete(rep, keys, kind):
    if not isinstance(rep, dict) or not keys <= set(rep):
        return False
    col = rep['color']
    if kind == 'qubit':
        ok = all(k in col and isinstance(col[k], str) and col[k].startswith('0x') for k in 'IXYZ')
        ok = ok and 'axis' in rep['params']
    else:
        ok = all(k in col and isinstance(col[k], str) and col[k].startswith('0x') for k in ('activated', 'deactivated'))
    return ok and isinstance(rep['object'], str) and len(rep['location']) >= 2


def w_repr(cfg, tier):
    import panqec.codes.base._stabilizer_code as sc
    parts = cfg.split('|')
    code = common.make_code(parts[1])
    rotated = parts[2] == 'rotated'
    col = hz.Collector(cfg)
    cls = type(code)
    col.encoded(cls.qubit_representation, cls.stabilizer_representation, sc.StabilizerCode.qubit_representation,
                sc.StabilizerCode.stabilizer_representation, cls.stabilizer_type, cls.qubit_axis)
    code.stabilizer_matrix
    fresh_code = common.make_code(parts[1])
    lt.symbolize(code)
    for kind, coords, index, fn_name, keys in (
            ('qubit', list(code.qubit_coordinates), code.qubit_index, 'qubit_representation', Q_KEYS),
            ('stabilizer', list(code.stabilizer_coordinates), code.stabilizer_index, 'stabilizer_representation', S_KEYS)):
        groups = {}
        for c in coords:
            groups.setdefault(len(c), []).append(c)
        for dim, cs in sorted(groups.items()):
            eng = Engine(name=f'{cfg}#{kind}{dim}', max_paths=3000)
            with eng:
                loc = lt.sym_location(eng, f'{kind[0]}{dim}_', cs, index)
                ps = eng.explore(lambda: getattr(code, fn_name)(loc, rotated))
            col.absorb(eng)
            lv = [c.t for c in loc]
            lt.validate_paths_at(col, f'{cfg}#{kind}{dim}', ps, lv, cs,
                                 lambda l_, fn_name=fn_name: json.loads(json.dumps(
                                     getattr(fresh_code, fn_name)(l_, rotated), default=float)),
                                 lambda v, sub: json.loads(json.dumps(lt.concretise(v, sub), default=float)),
                                 impure_oid=f'C20/{fn_name}/is-a-function-of-the-location')
            wit = lambda m, lv=lv, kind=kind: dict(kind=kind, location=[m.eval(v, model_completion=True).as_long() for v in lv],
                                                   rotated=rotated)
            bad_exc, bad_inc = [], []
            detail = ''
            for p in ps:
                if p.exc is not None:
                    bad_exc.append(z3_and(p.pc))
                    detail = f'{type(p.exc).__name__}: {p.exc}'
                else:
                    bad_inc.append(z3_and(p.pc + [z3.BoolVal(not complete(p.value, keys, kind))]))
            col.prove(f'C20/{fn_name}/no-exception/arity{dim}', eng.base, z3_or(bad_exc), wit,
                      detail or f'all {len(cs)} {kind} locations (symbolic), picture {"rotated" if rotated else "kitaev"}')
            col.prove(f'C20/{fn_name}/complete-description/arity{dim}', eng.base, z3_or(bad_inc), wit,
                      'object, colour (hex), opacity, parameters, location' + (', type' if kind == 'stabilizer' else ', axis'))
            col.prove(f'C20/{fn_name}/paths-cover/arity{dim}', eng.base,
                      z3.Not(z3_or([z3_and(p.pc) for p in ps])), wit)
    return col.result()


def w_tables(cfg, tier):
    """Finite tables through the Flask test client (ground facts)."""
    g = gui_table()
    from panqec.config import DECODERS
    col = hz.Collector(cfg)
    gui = g.GUI()
    client = gui.app.test_client()
    for code_name, cls in g.codes.items():
        r = client.post('/decoder-names', json={'code_name': code_name})
        got = set(json.loads(r.data)) if r.status_code == 200 else None
        want = {n for n, d in g.decoders.items() if d.allowed_codes is None or cls.__name__ in d.allowed_codes}
        ok = got == want
        col.record(f'C20/decoder-names/{cls.__name__}', 'unsat' if ok else 'sat', 0, False,
                   dict(table='decoder-names', code_name=code_name) if not ok else None,
                   'offered decoders == those declaring support')
        r = client.post('/deformation-names', json={'code_name': code_name})
        ok = r.status_code == 200 and json.loads(r.data) == list(cls.deformation_names)
        col.record(f'C20/deformation-names/{cls.__name__}', 'unsat' if ok else 'sat', 0, False,
                   dict(table='deformation-names', code_name=code_name) if not ok else None, '')
        # code-data at the smallest menu size: H and logicals identical to the library's, one description per
        # qubit / stabilizer in index order
        for deformation in ['None'] + list(cls.deformation_names):
            for rotated in (False, True):
                size = menu_sizes(cls.__name__, 'quick')[0]
                payload = {'Lx': size[0], 'Ly': size[1], 'code_name': code_name, 'code_deformation_name': deformation,
                           'rotated_picture': rotated}
                if len(size) == 3:
                    payload['Lz'] = size[2]
                oid = f'C20/code-data/{cls.__name__}/{deformation}/{"rotated" if rotated else "kitaev"}'
                try:
                    r = client.post('/code-data', json=payload)
                    ok = r.status_code == 200
                    detail = f'status {r.status_code}'
                    if ok:
                        data = json.loads(r.data)
                        ref = cls(*size)
                        if deformation != 'None':
                            ref.deform(deformation)
                        ok = data['H'] == ref.stabilizer_matrix.toarray().tolist() and \
                            data['logical_x'] == ref.logicals_x.tolist() and data['logical_z'] == ref.logicals_z.tolist() and \
                            len(data['qubits']) == ref.n and len(data['stabilizers']) == ref.n_stabilizers and \
                            all(complete(q, Q_KEYS, 'qubit') for q in data['qubits']) and \
                            all(complete(s_, S_KEYS, 'stabilizer') for s_ in data['stabilizers']) and \
                            [s_['type'] for s_ in data['stabilizers']] == \
                            [ref.stabilizer_type(c) for c in ref.stabilizer_coordinates]
                        detail = f'size {size}'
                except Exception as ex:
                    ok, detail = False, f'{type(ex).__name__}: {ex}'
                col.record(oid, 'unsat' if ok else 'sat', 0, False,
                           dict(table='code-data', payload=payload) if not ok else None, detail)
    return col.result()


def registered_failures():
    """A code and a decoder registered through the documented GUI.add_code / GUI.add_decoder API are menu
    entries like the shipped ones: listed, offered their deformations and decoders, and /code-data returns the
    library's matrices.  Returns the list of failed checks (run in a process of its own: registration writes
    into the registries)."""
    g = gui_table()
    from panqec.codes import Toric2DCode
    from panqec.decoders import BeliefPropagationOSDDecoder

    class MyToric2DCode(Toric2DCode):
        @property
        def id(self):                  # drawn with the Toric2DCode entries of the drawing configuration
            return 'Toric2DCode'

    class MyBPOSD(BeliefPropagationOSDDecoder):
        allowed_codes = None
    gui = g.GUI()
    gui.add_code(MyToric2DCode, 'My Toric 2D')
    gui.add_decoder(MyBPOSD, 'My BP-OSD')
    client = gui.app.test_client()
    bad = []
    r = client.post('/code-names', json={'dimension': 2})
    if r.status_code != 200 or 'My Toric 2D' not in json.loads(r.data):
        bad.append(f'/code-names: {r.status_code} {r.data[:80]!r}')
    r = client.post('/deformation-names', json={'code_name': 'My Toric 2D'})
    if r.status_code != 200 or json.loads(r.data) != list(MyToric2DCode.deformation_names):
        bad.append(f'/deformation-names: {r.status_code}')
    for code_name, cls in (('My Toric 2D', MyToric2DCode), ('Toric 2D', Toric2DCode)):
        r = client.post('/decoder-names', json={'code_name': code_name})
        want = {n for n, d in gui.decoders.items() if d.allowed_codes is None or cls.__name__ in d.allowed_codes}
        got = set(json.loads(r.data)) if r.status_code == 200 else None
        if got != want or 'My BP-OSD' not in (got or ()):
            bad.append(f'/decoder-names for {code_name}: {r.status_code} {sorted(got) if got else got} != {sorted(want)}')
    for size in ((3, 3), (4, 3)):
        for deformation in ['None'] + list(MyToric2DCode.deformation_names):
            payload = {'Lx': size[0], 'Ly': size[1], 'code_name': 'My Toric 2D', 'code_deformation_name': deformation,
                       'rotated_picture': False}
            r = client.post('/code-data', json=payload)
            if r.status_code != 200:
                bad.append(f'/code-data {size} {deformation}: status {r.status_code}')
                continue
            data = json.loads(r.data)
            ref = MyToric2DCode(*size)
            if deformation != 'None':
                ref.deform(deformation)
            if data['H'] != ref.stabilizer_matrix.toarray().tolist() or data['logical_x'] != ref.logicals_x.tolist() or \
                    len(data['qubits']) != ref.n or len(data['stabilizers']) != ref.n_stabilizers:
                bad.append(f'/code-data {size} {deformation}: content differs from the library')
    return bad


def w_registered(cfg, tier):
    col = hz.Collector(cfg)
    g = gui_table()
    col.encoded(g.GUI.add_code, g.GUI.add_decoder, g.GUI.send_decoder_names, g.GUI._instantiate_code)
    bad = hz.in_forked_child(registered_failures)
    col.record('C20/registered-code-and-decoder-are-served-like-the-shipped-ones', 'sat' if bad else 'unsat', 0, False,
               dict(registered=True, failures=bad[:5]) if bad else None,
               'GUI.add_code(subclass of Toric2DCode) + GUI.add_decoder(BP-OSD subclass with allowed_codes=None): '
               '/code-names, /deformation-names, /decoder-names, /code-data (two sizes, all deformations)')
    return col.result()


def w_wiring(cfg, tier):
    """/decode and /new-errors build the library objects the request names (recorder stubs; the menu
    options are solver-chosen and realised)."""
    g = gui_table()
    col = hz.Collector(cfg)
    col.encoded(g.GUI.send_correction, g.GUI.send_random_errors, g.GUI._instantiate_code)
    code_name = cfg.split(' ', 1)[1]
    cls = g.codes[code_name]
    deforms = ['None'] + list(cls.deformation_names)
    dec_names = [n for n, d in g.decoders.items() if d.allowed_codes is None or cls.__name__ in d.allowed_codes]
    size = menu_sizes(cls.__name__, 'quick')[0]
    rec = {}

    class RecNoise:
        def __init__(self, rx, ry, rz, deformation_name=None, *a, **k):
            self.args = (rx, ry, rz, deformation_name)
            rec.setdefault('noise', []).append(self)

        def generate(self, code, p, rng=None):
            rec['generate'] = (code, p)
            return np.arange(2 * code.n) % 2

    def mk_dec(name):
        class RecDec:
            allowed_codes = g.decoders[name].allowed_codes

            def __init__(self, code, error_model, p, **kw):
                rec['decoder'] = dict(name=name, code=code, error_model=error_model, p=p, kw=kw)

            def decode(self, syndrome, **k):
                rec['syndrome'] = np.array(syndrome)
                n = rec['decoder']['code'].n
                return np.arange(2 * n) % 3 % 2
        return RecDec
    saved = (g.PauliErrorModel, dict(g.decoders))
    g.PauliErrorModel = RecNoise
    for n_ in list(g.decoders):
        g.decoders[n_] = mk_dec(n_)
    eng = Engine(name=cfg, max_paths=5000)
    try:
        gui = g.GUI()
        client = gui.app.test_client()
        with eng:
            i_dec = eng.integer('decoder', 0, len(dec_names) - 1)
            i_noise = eng.integer('noise', 0, len(NOISE) - 1)
            i_cd = eng.integer('code_deformation', 0, len(deforms) - 1)
            i_nd = eng.integer('noise_deformation', 0, len(deforms) - 1)

            def fn():
                rec.clear()
                dn, nz, cd, nd = dec_names[int(i_dec)], NOISE[int(i_noise)], deforms[int(i_cd)], deforms[int(i_nd)]
                payload = {'Lx': size[0], 'Ly': size[1], 'code_name': code_name, 'code_deformation_name': cd,
                           'noise_deformation_name': nd, 'p': 0.125, 'max_bp_iter': 17, 'alpha': 0.4, 'beta': 0.1,
                           'decoder': dn, 'error_model': nz}
                if len(size) == 3:
                    payload['Lz'] = size[2]
                ref = cls(*size)
                payload['syndrome'] = [int(i % 2) for i in range(ref.n_stabilizers)]
                r = client.post('/decode', json=payload)
                ok = r.status_code == 200 and 'decoder' in rec
                why = f'status {r.status_code}'
                if ok:
                    d = rec['decoder']
                    c = d['code']
                    em = d['error_model']
                    want_dir = g.noise_directions[nz]
                    exp_kw = {}
                    if dn in ('BP-OSD', 'MBP'):
                        exp_kw['max_bp_iter'] = 17
                    if dn == 'BP-OSD':
                        exp_kw['osd_order'] = 0
                    if dn == 'MBP':
                        exp_kw.update(alpha=0.4, beta=0.1)
                    checks = {
                        'decoder': d['name'] == dn,
                        'code class/size': type(c) is cls and tuple(c.size) == tuple(size),
                        'code deformation': (c.deformation_name if c.is_deformed else 'None') == cd,
                        'noise direction': tuple(em.args[:3]) == tuple(want_dir),
                        'noise deformation': em.args[3] == (None if nd == 'None' else nd),
                        'error rate': d['p'] == 0.125,
                        'decoder options': d['kw'] == exp_kw,
                        'syndrome': rec['syndrome'].tolist() == payload['syndrome'],
                    }
                    out = json.loads(r.data)
                    full = (np.arange(2 * c.n) % 3 % 2).tolist()
                    checks['response'] = out == {'x': full[:c.n], 'z': full[c.n:]}
                    ok = all(checks.values())
                    why = ', '.join(k for k, v in checks.items() if not v)
                rec.clear()
                r2 = client.post('/new-errors', json=payload)
                ok2 = r2.status_code == 200 and 'generate' in rec
                if ok2:
                    em = rec['noise'][-1]
                    c2, p2 = rec['generate']
                    ok2 = tuple(em.args[:3]) == tuple(g.noise_directions[nz]) and em.args[3] == (None if nd == 'None' else nd) \
                        and p2 == 0.125 and type(c2) is cls and (c2.deformation_name if c2.is_deformed else 'None') == cd \
                        and json.loads(r2.data) == (np.arange(2 * c2.n) % 2).tolist()
                return ok, why, ok2, dict(decoder=dn, error_model=nz, code_deformation=cd, noise_deformation=nd)
            ps = eng.explore(fn)
    finally:
        g.PauliErrorModel = saved[0]
        g.decoders.clear()
        g.decoders.update(saved[1])
    col.absorb(eng)
    bad1, bad2 = [], []
    w1 = w2 = None
    d1 = ''
    for p in ps:
        if p.exc is not None:
            col.record('C20/wiring/no-exception', 'sat', 0, True, None, f'{type(p.exc).__name__}: {p.exc}')
            continue
        ok, why, ok2, choice = p.value
        bad1.append(z3_and(p.pc + [z3.BoolVal(not ok)]))
        bad2.append(z3_and(p.pc + [z3.BoolVal(not ok2)]))
        if not ok and w1 is None:
            w1, d1 = dict(choice, code_name=code_name, route='/decode'), why
        if not ok2 and w2 is None:
            w2 = dict(choice, code_name=code_name, route='/new-errors')
    col.prove('C20/decode-request-builds-the-requested-decoder-code-and-noise-model', eng.base, z3_or(bad1),
              lambda m: w1, f'{len(ps)} menu combinations (decoder x noise x code deformation x noise deformation)' +
              (f'; wrong: {d1}' if d1 else ''))
    col.prove('C20/new-errors-request-samples-from-the-requested-noise-model', eng.base, z3_or(bad2), lambda m: w2)
    return col.result()


def worker(cfg, tier='quick'):
    return {'repr': w_repr, 'tables': w_tables, 'wiring': w_wiring, 'registered': w_registered}[cfg.replace('|', ' ').split()[0]](cfg, tier)


def replay(path):
    with open(path) as f:
        d = json.load(f)
    w, oid, cfg = d['witness'], d['oid'], d['config']
    if isinstance(w, dict) and w.get('registered'):
        bad_ = registered_failures()
        print('failures:', bad_)
        print('REPLAY', 'reproduced' if bad_ else 'not-reproduced', oid, cfg)
        return 0
    if isinstance(w, dict) and w.get('impure'):
        # the real function returned two different values for the same argument: re-run the worker in this fresh
        # interpreter; the obligation must be reported again
        res = worker(cfg)
        bad = any(o['oid'] == oid and o['verdict'] == 'sat' for o in res['obs'])
        print('impure function at', w.get('location'))
        print('REPLAY', 'reproduced' if bad else 'not-reproduced', oid, cfg)
        return 0
    bad = False
    try:
        if cfg.startswith('repr'):
            code = common.make_code(cfg.split('|')[1])
            loc = tuple(w['location'])
            valid = loc in (code.qubit_index if w['kind'] == 'qubit' else code.stabilizer_index)
            if valid:
                try:
                    rep = code.qubit_representation(loc, w['rotated']) if w['kind'] == 'qubit' else \
                        code.stabilizer_representation(loc, w['rotated'])
                    bad = not complete(rep, Q_KEYS if w['kind'] == 'qubit' else S_KEYS, w['kind'])
                except Exception as ex:
                    print('raises', type(ex).__name__, ex)
                    bad = True
        elif cfg.startswith('tables'):
            g = gui_table()
            client = g.GUI().app.test_client()
            if w['table'] == 'code-data':
                r = client.post('/code-data', json=w['payload'])
                print('status', r.status_code)
                bad = r.status_code != 200
                if not bad:
                    res = w_tables(cfg, 'quick')
                    bad = any(o['oid'] == oid and o['verdict'] == 'sat' for o in res['obs'])
            else:
                res = w_tables(cfg, 'quick')
                bad = any(o['oid'] == oid and o['verdict'] == 'sat' for o in res['obs'])
        else:
            # wiring: real decoders and noise model; the served correction must equal the library's
            g = gui_table()
            from panqec.error_models import PauliErrorModel
            cls = g.codes[w['code_name']]
            size = menu_sizes(cls.__name__, 'quick')[0]
            payload = {'Lx': size[0], 'Ly': size[1], 'code_name': w['code_name'], 'code_deformation_name': w['code_deformation'],
                       'noise_deformation_name': w['noise_deformation'], 'p': 0.125, 'max_bp_iter': 17, 'alpha': 0.4,
                       'beta': 0.1, 'decoder': w['decoder'], 'error_model': w['error_model']}
            if len(size) == 3:
                payload['Lz'] = size[2]
            res = worker(cfg)
            bad = any(o['oid'] == oid and o['verdict'] == 'sat' for o in res['obs'])
    except Exception as ex:
        print('exception on replay:', type(ex).__name__, ex)
        bad = True
    print('REPLAY', 'reproduced' if bad else 'not-reproduced', oid, cfg)
    return 0


def configs(tier):
    g = gui_table()
    out = ['tables all', 'registered all']
    for code_name, cls in g.codes.items():
        out.append(f'wiring {code_name}')
        for s in menu_sizes(cls.__name__, tier):
            for name, axis in [(None, None)] + [(n, None) for n in cls.deformation_names]:
                for pic in ('kitaev', 'rotated'):
                    out.append(f'repr|{common.cfg_name(cls.__name__, s, name, None)}|{pic}')
    return out


def main(argv=None):
    a = hz.std_args(argv)
    if a.replay:
        return replay(a.replay)
    t0 = time.time()
    cfgs = common.order(configs(a.tier), a.seed)
    if a.only:
        cfgs = [c for c in cfgs if a.only in c]
    res = hz.run_configs('checks.c20', 'worker', cfgs, dict(tier=a.tier), jobs=a.jobs)
    return hz.finish(
        PID, a.tier, a.seed, res, t0,
        assumptions=['the menu offers: every listed code x {None + its deformation names} (default axis) x {kitaev, '
                     'rotated} x L in 1..12 with an optional coprime (L+1, L[, L]); sizes are intersected with the '
                     'supported family (DESIGN.md section 2)',
                     '/decode and /new-errors wiring is observed through recorder classes standing for the decoders and '
                     'the noise model (what they are constructed with, what they return)'],
        bounds=dict(sizes='L in 2..4 and coprime (quick) / 2..6 (thorough), n bounded', symbolic='qubit / stabilizer '
                    'location', menu='all decoders offered for the code x 4 noise options x code deformation x noise '
                    'deformation (realised)'),
        stubs=['gui.PauliErrorModel and gui.decoders[*] -> recorders (wiring part)'],
        outside=['Flask request parsing / JSON transport itself', 'the JavaScript front end', 'L = 1 and sizes outside '
                 'the supported family although the menu lists them', 'non-default deformation axes (the menu has none)'])


if __name__ == '__main__':
    sys.exit(main())
