"""C19 — generated input files cover exactly the requested parameter grid.

Real functions executed symbolically: panqec.cli.read_range_input with the decimal literals of
min:max:step symbolic (IEEE-754 doubles: float() of a literal = correctly rounded quotient; np.arange
= IEEE model of numpy's algorithm, validated against the real numpy on every run);
utils.get_direction_from_bias_ratio with a symbolic real bias ratio; cli.generate_input (click
callback) + simulation.read_input_dict with solver-chosen bias-ratio lists on an in-memory file system."""
import io
import itertools
import json
import sys
import time

import numpy as np
import z3

from symx import Engine
from symx.core import z3_and, z3_or, SymFP, SymReal, SymInt, term_of, model_frac, engine, HarnessError
from symx import harness as hz

PID = 'C19'


# ----------------------------------------------------------------------------------------------
class ArangeResult:
    def __init__(self, vals):
        self.vals = vals

    def tolist(self):
        return list(self.vals)

    def __getitem__(self, key):
        if not isinstance(key, slice):
            raise HarnessError('ArangeResult: only slicing is modelled')
        return ArangeResult(self.vals[key])

    def __len__(self):
        return len(self.vals)


def arange_model(start, stop, step):
    """numpy's arange for doubles: len = ceil((stop-start)/step); x0 = start, x1 = start+step,
    x_i = start + i*(x1-x0).  The symbolic length is realised (bounded by the grid)."""
    start, stop, step = SymFP.lift(start), SymFP.lift(stop), SymFP.lift(step)
    nbv = ((stop - start) / step).ceil_int(32)
    n = engine().realise_bv(nbv)
    if n <= 0:
        return ArangeResult([])
    vals = [start]
    if n >= 2:
        nxt = start + step
        delta = nxt - start
        vals.append(nxt)
        for i in range(2, n):
            vals.append(start + SymFP.lift(float(i)) * delta)
    return ArangeResult(vals)


def arange_model_concrete(start, stop, step):
    n = int(np.ceil((stop - start) / step))
    if n <= 0:
        return []
    vals = [start]
    if n >= 2:
        nxt = start + step
        delta = nxt - start
        vals.append(nxt)
        vals += [start + i * delta for i in range(2, n)]
    return vals


class NpShadow:
    def __getattr__(self, k):
        return getattr(np, k)

    def arange(self, *a, **k):
        return arange_model(*a)

    def floor(self, x):
        if isinstance(x, SymFP):
            return x.floor()
        return np.floor(x)

    def round(self, x, *a):
        if isinstance(x, SymFP):
            return round(x)
        return np.round(x, *a)

    def ceil(self, x):
        if isinstance(x, SymFP):
            return SymFP(z3.fpRoundToIntegral(z3.RTP(), x.t))
        return np.ceil(x)


def w_range(cfg, tier):
    """cfg = 'range k=<k> j=<j> c=<c> r=<r>': min = a/10^k (a symbolic), step = c/10^k,
    max = (a + j*c + r)/10^k.

    Candidate-driven exploration: the two integers the real code derives from floating point (numpy's
    arange length and, in the repaired code, the number of values kept) are not enumerated by the solver
    path by path; the harness runs the real function once per candidate pair and then discharges
    (i) every candidate pair that yields a wrong answer is infeasible, (ii) the candidates cover all
    inputs.  Each obligation is one stand-alone QF_BVFP query (cvc5, z3 as fall-back)."""
    import panqec.cli as cli
    parts = dict(p.split('=') for p in cfg.split()[1:])
    k, j, c = int(parts['k']), int(parts['j']), int(parts['c'])
    rem = int(parts.get('r', 0))          # max = (a + j*c + r)/10^k with 0 <= r < c (step need not divide)
    amax = int(parts.get('amax', 100))
    col = hz.Collector(cfg)
    col.encoded(cli.read_range_input)
    a = z3.BitVec('a', 16)
    dom = [a >= 0, z3.ULE(a, amax)]
    tokens = {'MIN': SymFP.from_decimal(z3.SignExt(48, a), k),
              'MAX': SymFP.from_decimal(z3.SignExt(48, a + j * c + rem), k),
              'STEP': SymFP.from_decimal(c, k)}

    def sym_float(s):
        if s in tokens:
            return tokens[s]
        return float(s)

    def fwit(av):
        f = lambda x: f'{x / 10 ** k:.{k}f}'
        return dict(spec=f'{f(av)}:{f(av + j * c + rem)}:{f(c)}', a=av, k=k, j=j, c=c, r=rem)

    def decide(oid, terms, detail):
        try:
            r, vals, dt = col.solve_cvc5(dom + terms, 600000, want=['a'])
        except Exception as ex:          # fall back to z3
            r, m, dt = col.solve(dom + terms, 600000)
            vals = {'a': m.eval(a, model_completion=True).as_long()} if m is not None else {}
        col.record(oid, r, dt, True, fwit(vals['a']) if r == 'sat' and 'a' in vals else None, detail)
        return r

    saved = (cli.__dict__.get('float'), cli.np)
    cli.float = sym_float
    cli.np = NpShadow()
    runs = []
    cands = [j, j + 1, j + 2]
    try:
        # how many symbolic integers does this version of the function realise?  probe with an
        # over-long forcing list and look at what was consumed
        for n_real in (1, 2, 3):
            ok = True
            for combo in itertools.product(cands, repeat=n_real):
                eng = Engine(name=cfg, max_paths=5, incremental=False)
                eng.forced = list(combo) + [None]
                with eng:
                    try:
                        eng._start_path([])
                        val = cli.read_range_input('MIN:MAX:STEP')
                        exc = None
                    except Exception as ex:          # noqa
                        val, exc = None, ex
                consumed = n_real + 1 - len(eng.forced)
                if exc is not None and eng.forced == []:
                    ok = False       # needs more forced values
                    break
                if consumed < n_real:
                    # fewer realisations on this run: keep only the combos that differ in the used prefix
                    if any(r_[0][:consumed] == combo[:consumed] for r_ in runs):
                        continue
                runs.append((combo[:consumed], list(eng.pc), val, exc))
            if ok:
                break
            runs = []
    finally:
        if saved[0] is None:
            del cli.float
        else:
            cli.float = saved[0]
        cli.np = saved[1]

    lim = tokens['MAX'] + tokens['STEP'] / 2
    n_wrong = n_val = 0
    for combo, pc_, vals, exc in runs:
        tag = 'x'.join(map(str, combo))
        if exc is not None:
            decide(f'C19/read_range_input/no-exception/cand{tag}', pc_, f'{type(exc).__name__}: {exc}')
            continue
        if len(vals) != j + 1:
            n_wrong += 1
            decide(f'C19/read_range_input/number-of-values/cand{tag}', pc_,
                   f'candidate (arange length, kept) = {combo} would give {len(vals)} values instead of {j + 1}: '
                   'must be infeasible for every a')
        else:
            n_val += 1
            bad = [z3.Not(z3.fpEQ(SymFP.lift(vals[0]).t, tokens['MIN'].t))]
            bad += [z3.fpGT(SymFP.lift(v).t, lim.t) for v in vals[:2]]
            decide(f'C19/read_range_input/values-start-at-min-and-stay-below-max/cand{tag}', pc_ + [z3.Or(bad)],
                   f'candidate {combo}: first value == min; min and min+step <= max + step/2 (IEEE doubles); an '
                   'extra element a whole step beyond max is excluded by the length obligation')
    decide('C19/read_range_input/candidates-cover-all-inputs',
           [z3.Not(z3.Or([z3.And(pc_) if pc_ else z3.BoolVal(True) for _, pc_, _, _ in runs]))],
           f'{len(runs)} candidate runs ({n_val} with the right length) cover every a <= {amax}')
    return col.result()


def w_arange_model(cfg, tier):
    """Translation validation of the arange model against the real numpy."""
    col = hz.Collector(cfg)
    seed = int(cfg.split('=')[1])
    rng = np.random.default_rng(seed)
    mism = []
    N = 3000
    for _ in range(N):
        k = int(rng.integers(1, 4))
        a = int(rng.integers(0, 1000))
        c = int(rng.choice([1, 2, 5, 10, 25]))
        jj = int(rng.integers(1, 40))
        mn, mx, st = a / 10 ** k, (a + jj * c) / 10 ** k, c / 10 ** k
        real = np.arange(mn, mx + st, st).tolist()
        mod = arange_model_concrete(mn, mx + st, st)
        if real != mod:
            mism.append((mn, mx, st))
    col.record('C19/arange-model-agrees-with-numpy', 'unsat' if not mism else 'sat', 0, True,
               dict(mismatch=mism[:3], lemma=True) if mism else None,
               f'{N} concrete decimal triples, bit-for-bit equal lists')
    return col.result()


def w_direction(cfg, tier):
    import panqec.utils as ut
    pauli = cfg.split('=')[1]
    col = hz.Collector(cfg)
    col.encoded(ut.get_direction_from_bias_ratio)
    eng = Engine(name=cfg)
    with eng:
        eta = eng.real('eta', 0, None)
        ps = eng.explore(lambda: ut.get_direction_from_bias_ratio(pauli, eta))
    col.absorb(eng)
    E = eta.t
    bad = []
    key = {'X': 'r_x', 'Y': 'r_y', 'Z': 'r_z'}[pauli]
    for p in ps:
        if p.exc is not None:
            col.record('C19/direction/no-exception', 'sat', 0, True, None, str(p.exc))
            continue
        d = p.value
        if sorted(d) != ['r_x', 'r_y', 'r_z']:
            bad.append(z3_and(p.pc))
            continue
        t = {k_: term_of(v, 'real') for k_, v in d.items()}
        others = [t[k_] for k_ in t if k_ != key]
        bad.append(z3_and(p.pc + [z3.Or(t['r_x'] + t['r_y'] + t['r_z'] != 1,
                                        t[key] * (1 + E) != E,
                                        others[0] != others[1], others[0] < 0)]))
    col.prove('C19/direction/sums-to-one-and-matches-bias', eng.base, z3_or(bad),
              lambda m: dict(eta=str(model_frac(m, E))),
              'r_bias = eta/(1+eta) on the bias axis, the other two equal and >= 0, sum 1; all eta >= 0')
    inf = ut.get_direction_from_bias_ratio(pauli, np.inf)
    ok = inf[key] == 1.0 and sum(inf.values()) == 1.0
    col.record('C19/direction/infinite-bias', 'unsat' if ok else 'sat', 0, False, dict(eta='inf') if not ok else None,
               'ground case eta = inf')
    return col.result()


# ----------------------------------------------------------------------------------------------
# incl. ratios that share their integer part / leading digits ('0.25' ~ '0.5', '1' ~ '1.5' ~ '10')
ETAS = ['0.25', '0.5', '1', '1.5', '3', '10', 'inf']


def run_generate(cli, etas, sizes, prob, bias, code_class, deformation_name, label, decoder=None):
    """Call the real generate_input callback on an in-memory file system; returns {filename: text}."""
    files = {}

    class F(io.StringIO):
        def __init__(self, name):
            super().__init__()
            self.name_ = name

        def close(self):
            files[self.name_] = self.getvalue()
            super().close()

        def __exit__(self, *a):
            self.close()

    def fake_open(name, mode='r', *a, **k):
        if 'w' in mode:
            files[name] = ''          # truncation happens at open
            return F(name)
        return io.StringIO(files[name])

    class Os:
        def __getattr__(self, k):
            import os
            return getattr(os, k)

        def makedirs(self, *a, **k):
            pass

        def remove(self, name):              # the in-memory file system is the only one generate-input sees
            files.pop(name, None)

        def listdir(self, d):
            return sorted({k[len(d.rstrip('/')) + 1:].split('/')[0] for k in files if k.startswith(d.rstrip('/') + '/')})

    def fake_glob(pattern, *a, **k):
        import fnmatch
        return sorted(k_ for k_ in files if fnmatch.fnmatchcase(k_, pattern))
    saved = (cli.__dict__.get('open'), cli.os)
    saved_glob = cli.__dict__.get('glob')
    cli.open = fake_open
    cli.os = Os()
    cli.glob = fake_glob
    try:
        import panqec.codes as pc
        if decoder is None:
            decoder = 'MatchingDecoder' if getattr(pc, code_class).dimension == 2 and 'Color' not in code_class \
                else 'BeliefPropagationOSDDecoder'
        cli.generate_input.callback('/data', sizes, decoder, bias, ','.join(etas), prob,
                                    code_class, 'PauliErrorModel', deformation_name, 'direct', label)
    finally:
        if saved[0] is None:
            del cli.open
        else:
            cli.open = saved[0]
        cli.os = saved[1]
        if saved_glob is None:
            cli.__dict__.pop('glob', None)
        else:
            cli.glob = saved_glob
    return files


def expected_simulations(etas, sizes, prob, bias, code_class='Toric2DCode', deformation_name=False):
    base = _expected_simulations(etas, sizes, prob, bias, code_class)
    if deformation_name is False:
        return base
    return sorted((t + (deformation_name,) for t in base), key=str)


def _expected_simulations(etas, sizes, prob, bias, code_class='Toric2DCode'):
    import panqec.cli as cli
    import panqec.utils as ut
    rates = cli.read_range_input(prob)
    out = []
    for eta in cli.read_bias_ratios(','.join(etas)):
        d = ut.get_direction_from_bias_ratio(bias, eta)
        for s in sizes.split(','):
            L = [int(x) for x in s.split('x')]
            # documented form [Lx]x[Ly]x[Lz]; missing components default to Lx
            full = (L[0], L[1] if len(L) >= 2 else L[0], L[2] if len(L) == 3 else L[0])
            import panqec.codes as pc
            dim = getattr(pc, code_class).dimension
            for r in rates:
                out.append((full[:dim], (d['r_x'], d['r_y'], d['r_z']), r))
    return sorted(out)


def simulations_on_disk(files, with_deformation=False):
    from panqec.simulation import read_input_dict
    out = []
    for name, text in files.items():
        data = json.loads(text)
        bs = read_input_dict(data, output_file=None)
        for sim in bs._simulations:
            c = sim.code
            size = tuple(c.size)
            d = sim.error_model.direction
            t = (size, tuple(d), sim.error_rate)
            if with_deformation:
                t += (sim.error_model.params.get('deformation_name'),)
            out.append(t)
    return sorted(out, key=str) if with_deformation else sorted(out)


def decoders_on_disk(files):
    from panqec.simulation import read_input_dict
    out = set()
    for name, text in files.items():
        for sim in read_input_dict(json.loads(text), output_file=None)._simulations:
            out.add(type(sim.decoder).__name__)
    return out


def w_files(cfg, tier):
    """cfg = 'files len=<m> bias=<B>': the list of bias ratios is chosen by the solver (indices into
    a fixed alphabet, pairwise distinct); realised — the space is finite and small."""
    import panqec.cli as cli
    parts = dict(p.split('=') for p in cfg.split()[1:])
    m, bias = int(parts['len']), parts['bias']
    sizes, prob = parts.get('sizes', '2x2,3x3'), parts.get('prob', '0.1,0.2')
    code_class = parts.get('code', 'Toric2DCode')
    decoder = parts.get('decoder')          # --decoder_class: every registered decoder is a valid choice
    col = hz.Collector(cfg)
    col.encoded(cli.generate_input.callback, cli.read_bias_ratios)
    eng = Engine(name=cfg, max_paths=500)
    with eng:
        idx = [eng.integer(f'i{t}', 0, len(ETAS) - 1) for t in range(m)]
        for x, y in itertools.combinations(idx, 2):
            eng.assume_base(x.t != y.t)

        def fn():
            etas = [ETAS[int(i)] for i in idx]
            files = run_generate(cli, etas, sizes, prob, bias, code_class, None, None, decoder=decoder)
            return etas, files
        ps = eng.explore(fn)
    col.absorb(eng)
    bad = []
    first_bad = None
    for p in ps:
        if p.exc is not None:
            col.record('C19/generate_input/no-exception', 'sat', 0, True, None, f'{type(p.exc).__name__}: {p.exc}')
            continue
        etas, files = p.value
        try:
            got = simulations_on_disk(files)
            ok = got == expected_simulations(etas, sizes, prob, bias, code_class)
            if ok and decoder:
                ok = decoders_on_disk(files) == {decoder}
        except Exception as ex:
            ok = False
        if not ok and first_bad is None:
            first_bad = etas
        bad.append(z3_and(p.pc + [z3.BoolVal(not ok)]))

    def wit(mo):
        return dict(etas=[ETAS[mo.eval(i.t, model_completion=True).as_long()] for i in idx], sizes=sizes,
                    prob=prob, bias=bias, code=code_class, decoder=decoder)
    col.prove('C19/generate_input/read-back-simulations-are-sizes-x-ratios-x-rates', eng.base, z3_or(bad), wit,
              f'{len(ps)} solver-chosen bias-ratio lists of length {m}: files on disk, parsed by read_input_dict, '
              'contain one simulation per (size, bias ratio, error rate) and nothing else')
    return col.result()


DEFORMATIONS = [None, 'XZZX', 'XY']


def history_mismatch(cli, bias, first, second, sizes='2x2,3x2', prob='0.1'):
    """Two invocations of generate-input in ONE process; returns what is wrong with either's files."""
    out = []
    for tag, (eta, dname) in (('first', first), ('second', second)):
        files = run_generate(cli, [eta], sizes, prob, bias, 'Toric2DCode', dname, None)
        got = simulations_on_disk(files, with_deformation=True)
        want = expected_simulations([eta], sizes, prob, bias, 'Toric2DCode', deformation_name=dname)
        if got != want:
            out.append(f'{tag} invocation (eta={eta}, deformation={dname}): read back {got[:2]}..., requested {want[:2]}...')
    return out


def w_history(cfg, tier):
    """cfg = 'history bias=<B>': two generate-input invocations in one process -- (bias ratio, noise deformation)
    of each chosen by the solver (realised); each history runs in a forked child of its own.  Both invocations'
    files must read back as exactly their own request (sizes x ratio x rates, direction AND deformation)."""
    import panqec.cli as cli
    bias = dict(p.split('=') for p in cfg.split()[1:])['bias']
    col = hz.Collector(cfg)
    col.encoded(cli.generate_input.callback, cli.read_bias_ratios)
    eng = Engine(name=cfg, max_paths=2000)
    with eng:
        ea, eb_ = eng.integer('eta1', 0, len(ETAS) - 1), eng.integer('eta2', 0, len(ETAS) - 1)
        da, db = eng.integer('def1', 0, len(DEFORMATIONS) - 1), eng.integer('def2', 0, len(DEFORMATIONS) - 1)

        def fn():
            first, second = (ETAS[int(ea)], DEFORMATIONS[int(da)]), (ETAS[int(eb_)], DEFORMATIONS[int(db)])
            return first, second, hz.in_forked_child(lambda: history_mismatch(cli, bias, first, second))
        ps = eng.explore(fn)
    col.absorb(eng)
    bad, w = [], [None]
    for p in ps:
        if p.exc is not None:
            bad.append(z3_and(p.pc))
            w[0] = w[0] or dict(history=True, exception=f'{type(p.exc).__name__}: {p.exc}')
            continue
        first, second, mis = p.value
        bad.append(z3_and(p.pc + [z3.BoolVal(bool(mis))]))
        if mis and (w[0] is None or 'first' not in w[0]):
            w[0] = dict(history=True, first=list(first), second=list(second), bias=bias, mismatch=mis[:2])
    col.prove('C19/generate_input/two-invocations-in-one-process-each-read-back-as-requested', eng.base, z3_or(bad),
              lambda mo: w[0],
              f'{len(ps)} realised ordered pairs of invocations ({len(ETAS)} bias ratios x {len(DEFORMATIONS)} noise '
              'deformations each), one forked process per pair; compared: sizes, direction, rates, deformation name')
    return col.result()


def worker(cfg, tier='quick'):
    if cfg.startswith('history'):
        return w_history(cfg, tier)
    return {'range': w_range, 'arange-model': w_arange_model, 'direction': w_direction,
            'files': w_files}[cfg.split()[0]](cfg, tier)


def replay(path):
    import panqec.cli as cli
    with open(path) as f:
        d = json.load(f)
    w, oid, cfg = d['witness'], d['oid'], d['config']
    bad = False
    try:
        if cfg.startswith('range'):
            vals = cli.read_range_input(w['spec'])
            mn, mx, st = (float(x) for x in w['spec'].split(':'))
            print(w['spec'], '->', vals)
            if 'number' in oid:
                bad = len(vals) != w['j'] + 1
            elif 'values-start' in oid:
                bad = vals[0] != mn or any(v > mx + st / 2 for v in vals[:2])
            elif 'cover' in oid or 'no-exception' in oid:
                bad = False
        elif cfg.startswith('direction'):
            import panqec.utils as ut
            from fractions import Fraction
            eta = float(Fraction(w['eta'])) if w['eta'] != 'inf' else np.inf
            pauli = cfg.split('=')[1]
            dd = ut.get_direction_from_bias_ratio(pauli, eta)
            key = {'X': 'r_x', 'Y': 'r_y', 'Z': 'r_z'}[pauli]
            want = 1.0 if eta == np.inf else eta / (1 + eta)
            bad = abs(sum(dd.values()) - 1) > 1e-12 or abs(dd[key] - want) > 1e-12
        elif cfg.startswith('history'):
            if 'first' in w:
                mis = history_mismatch(cli, w['bias'], tuple(w['first']), tuple(w['second']))
                print('first', w['first'], 'second', w['second'], '->', mis)
                bad = bool(mis)
            else:
                res = worker(cfg)
                bad = any(o['oid'] == oid and o['verdict'] == 'sat' for o in res['obs'])
        elif cfg.startswith('files'):
            files = run_generate(cli, w['etas'], w['sizes'], w['prob'], w['bias'], w.get('code', 'Toric2DCode'), None, None,
                                 decoder=w.get('decoder'))
            print('files written:', sorted(files))
            bad = simulations_on_disk(files) != expected_simulations(w['etas'], w['sizes'], w['prob'], w['bias'],
                                                                      w.get('code', 'Toric2DCode'))
            if not bad and w.get('decoder'):
                bad = decoders_on_disk(files) != {w['decoder']}
        elif cfg.startswith('arange-model'):
            bad = True
    except Exception as ex:
        print('exception on replay:', type(ex).__name__, ex)
        bad = True
    print('REPLAY', 'reproduced' if bad else 'not-reproduced', oid, cfg)
    return 0


def configs(tier):
    out = ['arange-model seed=0']
    if tier == 'quick':
        grid = [(1, 1, 1, 0), (2, 1, 1, 0), (2, 3, 2, 0), (2, 6, 5, 0), (3, 2, 5, 0), (2, 2, 2, 1), (1, 1, 5, 3)]
    else:
        grid = [(k, j, c, 0) for k in (1, 2, 3) for j in (1, 2, 3, 5, 8, 12) for c in (1, 2, 5)] + \
               [(k, j, c, r) for k in (1, 2) for j in (0, 1, 4) for c, r in ((2, 1), (5, 2), (5, 4))]
    out += [f'range k={k} j={j} c={c} r={r}' for k, j, c, r in grid]
    out += [f'direction bias={b}' for b in 'XYZ']
    out += ['history bias=Z'] + (['history bias=X', 'history bias=Y'] if tier != 'quick' else [])
    # every registered decoder class as --decoder_class (on a code it supports)
    out += ['files len=1 bias=Z decoder=MemoryBeliefPropagationDecoder', 'files len=1 bias=Z decoder=UnionFindDecoder',
            'files len=1 bias=X decoder=BeliefPropagationOSDDecoder',
            'files len=1 bias=Z sizes=2x2x2 code=Toric3DCode decoder=SweepMatchDecoder prob=0.1',
            'files len=1 bias=Z sizes=2x2x2 code=RotatedPlanar3DCode decoder=RotatedSweepMatchDecoder prob=0.1',
            'files len=1 bias=Z sizes=2x2x2 code=XCubeCode decoder=XCubeMatchingDecoder prob=0.1']
    out += ['files len=1 bias=Z', 'files len=2 bias=Z', 'files len=1 bias=X sizes=2x3,3x2,4 prob=0.1:0.3:0.1',
            'files len=1 bias=Y sizes=2x3x4,3x2x2,2 code=Toric3DCode prob=0.05'] + \
        (['files len=3 bias=X', 'files len=2 bias=Y', 'files len=2 bias=Z sizes=3x2x4,2x2x3 code=Planar3DCode'] if tier != 'quick' else [])
    return out


def main(argv=None):
    a = hz.std_args(argv)
    if a.replay:
        return replay(a.replay)
    t0 = time.time()
    cfgs = configs(a.tier)
    if a.only:
        cfgs = [c for c in cfgs if a.only in c]
    res = hz.run_configs('checks.c19', 'worker', cfgs, dict(tier=a.tier), jobs=a.jobs)
    return hz.finish(
        PID, a.tier, a.seed, res, t0,
        assumptions=['float(<decimal literal>) is the correctly rounded quotient num/10^k (both exact doubles)',
                     'np.arange(start, stop, step) for doubles follows the modelled algorithm (validated against the '
                     'real numpy on 3000 concrete triples per run)',
                     'bias ratio is a real number for the direction formula',
                     'in-memory file system: open(name, "w") truncates, close() commits'],
        bounds=dict(range='literals a/10^k with a <= 100 symbolic (16-bit), k in 1..3, step numerator in {1,2,5}, '
                          '(max-min)/step in the listed j values', files='bias-ratio lists of length <= 2 (quick) / 3 '
                    'over the alphabet ' + ','.join(ETAS) + ', realised'),
        stubs=['float and np inside panqec.cli (range part)', 'open / os.makedirs inside panqec.cli (files part)'],
        outside=['decimal grids beyond the bound', 'sizes / probability / class-name options other than those listed '
                 '(they are passed through verbatim)', 'the files part explores a finite configuration list through '
                 'realisation: the solver only enumerates it'])


if __name__ == '__main__':
    sys.exit(main())
