"""C04 — decoding success is declared iff the residual error is a stabilizer.

Real functions executed symbolically (all 2n error bits symbolic): StabilizerCode.measure_syndrome,
in_codespace, logical_errors, is_logical_error, is_success, bpauli.bs_prod / _bs_prod_sparse /
get_effective_error.  Specification side: the certified kernel of the concrete H (symx.gf2)."""
import json
import sys
import time

import numpy as np
import z3

from symx import Engine, as_sa, install, gf2
from symx.arrays import SA
from symx.core import z3_xor, z3_and, z3_or, bool_term, Bit
from symx import harness as hz
from checks import common

PID = 'C04'


def _install():
    import panqec.bpauli
    import panqec.bsparse
    import panqec.codes.base._stabilizer_code as sc
    install(panqec.bpauli, panqec.bsparse, sc)


def xor_sel(bits, mask):
    return z3_xor([bits[j] for j in gf2.bits_of(mask)])


DIRECT_TIMEOUT_MS = 15000


def change_of_variables(col, code, cfg, Hr, LX, LZ, n, det):
    """Second encoding of 'success iff stabilizer' for codes where the direct query is out of reach:
    e = M v with M = [S | LX | LZ | D] an invertible (certified) symplectic frame, v symbolic.
    Then e in rowspace(H) <=> v_L = 0 and v_D = 0, and the real code is run on e(v)."""
    oid = 'C04/is_success/iff-in-stabilizer-group'
    fr = gf2.symplectic_frame(Hr, LX, LZ, n)
    if fr is None:
        col.record(oid, 'unknown', 0, True, None, det + ' [direct: solver unknown; no symplectic '
                   'frame exists for the change of variables]')
        return
    S_idx, D = fr
    cols = [Hr[i] for i in S_idx] + LX + LZ + D
    vb = [z3.Bool(f'v_{j}') for j in range(2 * n)]
    r = len(S_idx)
    eng = Engine(name=cfg + '#cov')
    with eng:
        cells = []
        for q in range(2 * n):
            cells.append(Bit(z3_xor([vb[j] for j, c in enumerate(cols) if (c >> q) & 1])))
        e = as_sa(cells)
        paths = eng.explore(lambda: (code.in_codespace(e), code.is_success(e)))
    col.absorb(eng)
    spec_cs = z3_and([z3.Not(b) for b in vb[n + len(LX):]])            # v_D = 0
    spec_ok = z3_and([z3.Not(b) for b in vb[r:]])                       # v_L = 0 and v_D = 0
    alts = []
    for p in paths:
        if p.exc is not None:
            col.record('C04/no-exception', 'sat', 0, True, None, f'{type(p.exc).__name__}: {p.exc}')
            continue
        alts.append(z3_and(p.pc + [z3_or([z3.Xor(bool_term(p.value[0]), spec_cs),
                                          z3.Xor(bool_term(p.value[1]), spec_ok)])]))
    alts.append(z3.Not(z3_or([z3_and(p.pc) for p in paths])))

    def wit(m):
        ev = 0
        for j, b in enumerate(vb):
            if z3.is_true(m.eval(b, model_completion=True)):
                ev ^= cols[j]
        return dict(error=[(ev >> q) & 1 for q in range(2 * n)])
    col.prove(oid, [], z3_or(alts), wit, det + ' [direct query unknown after '
              f'{DIRECT_TIMEOUT_MS} ms; decided after the certified invertible change of variables '
              'e = [S|LX|LZ|D] v]')


def worker(cfg, tier='quick'):
    _install()
    import panqec.bpauli as bp
    from panqec.codes import StabilizerCode
    code = common.make_code(cfg)
    n, k = code.n, code.k
    col = hz.Collector(cfg)
    col.encoded(StabilizerCode.measure_syndrome, StabilizerCode.in_codespace,
                StabilizerCode.logical_errors, StabilizerCode.is_logical_error,
                StabilizerCode.is_success, bp.bs_prod, bp._bs_prod_sparse, bp.get_effective_error)
    Hr = gf2.rows_of(code.stabilizer_matrix)
    LX = gf2.rows_of(code.logicals_x)
    LZ = gf2.rows_of(code.logicals_z)
    rank, K = gf2.rank_and_kernel(Hr, 2 * n)      # K: basis of {v: H v = 0}; rowspace(H) = K-perp
    sw = lambda v: gf2.swap_halves(v, n)

    eb = [z3.Bool(f'e_{i}') for i in range(2 * n)]
    syn_spec = [xor_sel(eb, sw(h)) for h in Hr]
    incs_spec = z3_and([z3.Not(s) for s in syn_spec])
    stab_spec = z3_and([z3.Not(xor_sel(eb, v)) for v in K])
    leff_spec = [xor_sel(eb, sw(l)) for l in LZ] + [xor_sel(eb, sw(l)) for l in LX]

    eng = Engine(name=cfg)
    with eng:
        e = as_sa([Bit(b) for b in eb])

        def fn():
            s = code.measure_syndrome(e)
            return dict(s=s, incs=code.in_codespace(e), leff=code.logical_errors(e),
                        islog=code.is_logical_error(e), succ=code.is_success(e))
        paths = eng.explore(fn)
    col.absorb(eng)

    def wit(m):
        return dict(error=[1 if z3.is_true(m.eval(b, model_completion=True)) else 0 for b in eb])

    exc = [p for p in paths if p.exc is not None]
    for p in exc:
        r, m, dt = col.solve(p.pc)
        col.record('C04/no-exception', 'sat' if r == 'sat' else r, dt, True,
                   wit(m) if m is not None else None, f'{type(p.exc).__name__}: {p.exc}')
    ok = [p for p in paths if p.exc is None]
    col.prove('C04/paths-cover-all-errors', [], z3.Not(z3_or([z3_and(p.pc) for p in paths])),
              wit, 'disjunction of path conditions is valid')

    def mismatch(getter):
        alts = []
        for p in ok:
            alts.append(z3_and(p.pc + [getter(p.value)]))
        return z3_or(alts)

    def cells_differ(cells, spec):
        cells = list(np.asarray(cells).reshape(-1))
        if len(cells) != len(spec):
            return z3.BoolVal(True)
        return z3_or([z3_xor([bool_term(c), s]) for c, s in zip(cells, spec)])

    col.prove('C04/measure_syndrome/equals-H-Lambda-e', [],
              mismatch(lambda v: cells_differ(v['s'], syn_spec)), wit,
              'every syndrome cell returned by the real code equals the symplectic product with the row')
    col.prove('C04/in_codespace/iff-zero-syndrome', [],
              mismatch(lambda v: z3.Xor(bool_term(v['incs']), incs_spec)), wit)
    col.prove('C04/logical_errors/bits-flag-anticommutation', [],
              mismatch(lambda v: cells_differ(v['leff'], leff_spec)), wit,
              'bit i = anticommutes with logicals_z[i]; bit k+i = anticommutes with logicals_x[i]')
    col.prove('C04/is_logical_error/iff-some-bit', [],
              mismatch(lambda v: z3.Xor(bool_term(v['islog']), z3_or(leff_spec))), wit)
    r_succ, m_succ, dt_succ = col.solve([mismatch(
        lambda v: z3.Xor(bool_term(v['succ']), stab_spec))], timeout_ms=DIRECT_TIMEOUT_MS)
    det = f'e in rowspace(H) <=> K e = 0 with certified kernel basis, |K|={len(K)}, rank={rank}'
    if r_succ != 'unknown':
        col.record('C04/is_success/iff-in-stabilizer-group', r_succ, dt_succ, True,
                   wit(m_succ) if m_succ is not None else None, det + ' [direct encoding]')
    else:
        change_of_variables(col, code, cfg, Hr, LX, LZ, n, det)
    # the verdict functions read H and the logicals of the object: an object that was USED (k, d, logicals,
    # H read) before deform() must carry the same matrices as the freshly deformed one decided above
    if code.is_deformed:
        from checks.c01 import used_then_deformed_differs
        diff_u = used_then_deformed_differs(cfg, Hr, LX, LZ)
        col.record('C04/object-used-before-deform-decides-with-the-same-matrices', 'sat' if diff_u else 'unsat', 0, False,
                   dict(used_then_deformed=diff_u, error=[0] * (2 * n)) if diff_u else None,
                   'ground: H, logicals_x, logicals_z, n, k, d, is_css of (construct; read k, d, H, Hx, logicals; deform) '
                   'equal those of (construct; deform)')
    # reachability twins
    col.reach('C04/reach/success', [mismatch(lambda v: z3.BoolVal(bool(v['succ']) is True))])
    col.reach('C04/reach/failure-in-codespace',
              [mismatch(lambda v: z3.BoolVal(v['succ'] is False and v['incs'] is True))])

    # linearity and coset-invariance, by running the real code on composite arguments
    e2b = [z3.Bool(f'f_{i}') for i in range(2 * n)]
    ab = [z3.Bool(f'a_{i}') for i in range(len(Hr))]
    eng2 = Engine(name=cfg + '#lin')
    with eng2:
        e1 = as_sa([Bit(b) for b in eb])
        e2 = as_sa([Bit(b) for b in e2b])
        esum = as_sa([Bit(z3_xor([a, b])) for a, b in zip(eb, e2b)])
        stab = []
        for q in range(2 * n):
            rows = [ab[i] for i, h in enumerate(Hr) if (h >> q) & 1]
            stab.append(Bit(z3_xor([eb[q]] + rows)) if rows else Bit(eb[q]))
        ecoset = as_sa(stab)

        def fn2():
            return (code.logical_errors(e1), code.logical_errors(e2), code.logical_errors(esum),
                    code.logical_errors(ecoset))
        p2 = eng2.explore(fn2)
    col.absorb(eng2)
    alts_lin, alts_cos = [], []
    for p in p2:
        if p.exc is not None:
            col.record('C04/no-exception', 'sat', 0, True, None, f'{type(p.exc).__name__}: {p.exc}')
            continue
        l1, l2, ls, lc = [list(np.asarray(x).reshape(-1)) for x in p.value]
        alts_lin.append(z3_and(p.pc + [z3_or([z3_xor([bool_term(s), bool_term(a), bool_term(b)])
                                              for a, b, s in zip(l1, l2, ls)])]))
        alts_cos.append(z3_and(p.pc + [z3_or([z3_xor([bool_term(a), bool_term(c)])
                                              for a, c in zip(l1, lc)])]))

    def wit2(m):
        g = lambda bs: [1 if z3.is_true(m.eval(b, model_completion=True)) else 0 for b in bs]
        return dict(error=g(eb), error2=g(e2b), alpha=g(ab))
    # other accepted representations of the residual error: a dense single row (1, 2n) and a batch (2, 2n)
    # (the three branches of get_effective_error); flat-vector semantics must carry over row by row
    f_spec = [xor_sel(e2b, sw(l)) for l in LZ] + [xor_sel(e2b, sw(l)) for l in LX]
    eng3 = Engine(name=cfg + '#repr')
    with eng3:
        e1 = as_sa([Bit(b) for b in eb])
        e2 = as_sa([Bit(b) for b in e2b])

        def fn3():
            row = e1.reshape(1, 2 * n)
            batch = np.empty((2, 2 * n), dtype=object)
            batch[0, :] = [Bit(b) for b in eb]
            batch[1, :] = [Bit(b) for b in e2b]
            batch = batch.view(SA)
            return code.logical_errors(row), code.logical_errors(batch)
        p3 = eng3.explore(fn3)
    col.absorb(eng3)
    alts_row, alts_batch = [], []
    for p in p3:
        if p.exc is not None:
            r_, m_, dt_ = col.solve(p.pc)
            col.record('C04/logical_errors/representations/no-exception', r_, dt_, True,
                       wit2(m_) if m_ is not None else None, f'{type(p.exc).__name__}: {p.exc}')
            continue
        lrow, lbatch = p.value
        alts_row.append(z3_and(p.pc + [z3.BoolVal(np.shape(lrow) != (2 * k,)) if np.shape(lrow) != (2 * k,)
                                       else cells_differ(lrow, leff_spec)]))
        if np.shape(lbatch) != (2, 2 * k):
            alts_batch.append(z3_and(p.pc))
        else:
            lb = np.asarray(lbatch)
            alts_batch.append(z3_and(p.pc + [z3_or([cells_differ(lb[0], leff_spec), cells_differ(lb[1], f_spec)])]))
    col.prove('C04/logical_errors/single-row-2d-error-gives-the-same-bits', [], z3_or(alts_row), wit2,
              'error passed as a dense (1, 2n) array: result has shape (2k,) and the bits of the flat-vector form')
    col.prove('C04/logical_errors/batch-of-errors-row-by-row', [], z3_or(alts_batch), wit2,
              'error passed as a (2, 2n) batch [e; e\']: row i of the result is the logical effect of row i')
    col.prove('C04/logical_errors/linear', [], z3_or(alts_lin), wit2, 'f(e+e\') = f(e)+f(e\')')
    col.prove('C04/logical_errors/constant-on-stabilizer-cosets', [], z3_or(alts_cos), wit2,
              'f(e + alpha.H) = f(e) for symbolic alpha')
    return col.result()


def replay(path):
    """Fresh interpreter, real code, no shims."""
    with open(path) as f:
        d = json.load(f)
    code = common.make_code(d['config'])
    n = code.n
    w = d['witness']
    e = np.array(w['error'], dtype=np.uint8)
    Hr = gf2.rows_of(code.stabilizer_matrix)
    LX, LZ = gf2.rows_of(code.logicals_x), gf2.rows_of(code.logicals_z)
    ev = sum(1 << i for i, b in enumerate(w['error']) if b)
    sw = lambda v: gf2.swap_halves(v, n)
    oid = d['oid']
    bad = False
    try:
        syn = [gf2.parity(sw(h) & ev) for h in Hr]
        leff = [gf2.parity(sw(l) & ev) for l in LZ] + [gf2.parity(sw(l) & ev) for l in LX]
        if 'measure_syndrome' in oid:
            bad = list(map(int, code.measure_syndrome(e))) != syn
        elif 'in_codespace' in oid:
            bad = bool(code.in_codespace(e)) != (not any(syn))
        elif 'is_success' in oid:
            bad = bool(code.is_success(e)) != gf2.in_rowspace(Hr, ev, 2 * n)
        elif 'is_logical_error' in oid:
            bad = bool(code.is_logical_error(e)) != any(leff)
        elif 'used-before-deform' in oid:
            from checks.c01 import used_then_deformed_differs
            bad = bool(used_then_deformed_differs(d['config'], Hr, LX, LZ))
        elif 'single-row' in oid:
            got = np.asarray(code.logical_errors(e.reshape(1, -1)))
            print('logical_errors of the (1, 2n) form', got.tolist(), 'flat form spec', leff)
            bad = got.shape != (len(leff),) or list(map(int, got)) != leff
        elif 'batch-of-errors' in oid:
            e2 = np.array(w['error2'], dtype=np.uint8)
            ev2 = sum(1 << i for i, b in enumerate(w['error2']) if b)
            leff2 = [gf2.parity(sw(l) & ev2) for l in LZ] + [gf2.parity(sw(l) & ev2) for l in LX]
            got = np.asarray(code.logical_errors(np.array([e, e2])))
            bad = got.shape != (2, len(leff)) or got.astype(int).tolist() != [leff, leff2]
        elif 'representations/no-exception' in oid:
            code.logical_errors(e.reshape(1, -1))
            code.logical_errors(np.array([e, np.array(w['error2'], dtype=np.uint8)]))
            bad = False
        elif 'bits-flag' in oid:
            bad = list(map(int, code.logical_errors(e))) != leff
        elif 'linear' in oid:
            e2 = np.array(w['error2'], dtype=np.uint8)
            bad = list((code.logical_errors(e) + code.logical_errors(e2)) % 2) != \
                list(code.logical_errors((e + e2) % 2))
        elif 'cosets' in oid:
            a = np.array(w['alpha'], dtype=np.uint8)
            st = (a @ code.stabilizer_matrix.toarray()) % 2
            bad = list(code.logical_errors(e)) != list(code.logical_errors((e + st) % 2))
        elif 'no-exception' in oid:
            code.is_success(e)
            bad = False
        elif 'paths-cover' in oid:
            bad = False
    except Exception as ex:   # the real code raising on a valid BSF vector is a violation too
        print('exception on replay:', type(ex).__name__, ex)
        bad = True
    print('REPLAY', 'reproduced' if bad else 'not-reproduced', oid, d['config'])
    return 0


def configs(tier):
    if tier == 'quick':
        return common.code_configs('quick', deformed=True, max_n=100)
    return common.code_configs('thorough', deformed=True, max_n=260)


def main(argv=None):
    a = hz.std_args(argv)
    if a.replay:
        return replay(a.replay)
    t0 = time.time()
    cfgs = common.order(configs(a.tier), a.seed)
    if a.only:
        cfgs = [c for c in cfgs if a.only in c]
    res = hz.run_configs('checks.c04', 'worker', cfgs, dict(tier=a.tier), jobs=a.jobs)
    return hz.finish(
        PID, a.tier, a.seed, res, t0,
        assumptions=['uint8/uint dtypes modelled as mathematical integers (only parities are observed)',
                     'csr_matrix as seen from panqec.bsparse/bpauli replaced by csr_shim (dense-backed '
                     'for symbolic operands); validated differentially in the engine self-test',
                     'H, logicals taken from the real code object (their validity is C01/C02)'],
        bounds=dict(symbolic='all 2n bits of the residual error (4^n errors per configuration)',
                    configurations=len(cfgs), max_n=100 if a.tier == 'quick' else 260),
        stubs=['scipy.sparse.csr_matrix -> symx.csr_shim (panqec.bsparse, panqec.bpauli)'],
        outside=['lattice sizes beyond the configuration list', 'run_once wiring (C11)'])


if __name__ == '__main__':
    sys.exit(main())
