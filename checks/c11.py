"""C11 — Monte-Carlo trials are self-consistent and reproducible.

Real functions executed symbolically: simulation.run_once (error and correction symbolic, supplied by
stub noise model / stub decoder), DirectSimulation.__init__/_run/run/get_results with symbolic run
lengths.  Not decided: the statistical claim (failure frequency is an unbiased estimate of the exact
failure probability)."""
import json
import sys
import time

import numpy as np
import z3

from symx import Engine, as_sa, install, gf2
from symx.core import z3_xor, z3_and, z3_or, bool_term, Bit, SymInt, SymReal, term_of, engine
from symx import harness as hz
from checks import common

PID = 'C11'


def _install():
    import panqec.bpauli
    import panqec.bsparse
    import panqec.codes.base._stabilizer_code as sc
    import panqec.simulation._direct_simulation as ds
    install(panqec.bpauli, panqec.bsparse, sc, ds)
    return ds


class StubNoise:
    id = 'StubNoise'
    params = {}

    def __init__(self, n):
        self.n = n
        self.calls = []

    def generate(self, code, error_rate, rng=None):
        eng = engine()
        bits = [z3.Bool(eng.path_name('err')) for _ in range(2 * self.n)]
        self.calls.append(dict(code=code, error_rate=error_rate, rng=rng, bits=bits))
        return as_sa([Bit(b) for b in bits])


class StubDecoder:
    id = 'StubDecoder'
    params = {}

    def __init__(self, n):
        self.n = n
        self.calls = []

    def decode(self, syndrome, **k):
        eng = engine()
        bits = [z3.Bool(eng.path_name('cor')) for _ in range(2 * self.n)]
        self.calls.append(dict(syndrome=syndrome, bits=bits))
        return as_sa([Bit(b) for b in bits])


def specs(code, ebits, cbits):
    n = code.n
    Hr = gf2.rows_of(code.stabilizer_matrix)
    LX, LZ = gf2.rows_of(code.logicals_x), gf2.rows_of(code.logicals_z)
    sw = lambda v: gf2.swap_halves(v, n)
    tot = [z3_xor([a, b]) for a, b in zip(ebits, cbits)]
    syn = [z3_xor([ebits[j] for j in gf2.bits_of(sw(h))]) for h in Hr]
    res = [z3_xor([tot[j] for j in gf2.bits_of(sw(h))]) for h in Hr]
    eff = [z3_xor([tot[j] for j in gf2.bits_of(sw(l))]) for l in LZ] + \
          [z3_xor([tot[j] for j in gf2.bits_of(sw(l))]) for l in LX]
    cs = z3_and([z3.Not(t) for t in res])
    return syn, eff, cs, z3.And(cs, z3_and([z3.Not(t) for t in eff]))


def w_once(cfg, tier):
    ds = _install()
    code = common.make_code(cfg.split(' ')[1])
    n = code.n
    col = hz.Collector(cfg)
    col.encoded(ds.run_once)
    rng_token = object()
    eng = Engine(name=cfg)
    with eng:
        def fn():
            noise, dec = StubNoise(n), StubDecoder(n)
            r = ds.run_once(code, noise, dec, 0.25, rng=rng_token)
            return r, noise.calls, dec.calls
        ps = eng.explore(fn)
    col.absorb(eng)
    bad = {k: [] for k in ('syndrome', 'effective_error', 'codespace', 'success', 'plumbing')}
    allbits = []
    for p in ps:
        if p.exc is not None:
            col.record('C11/run_once/no-exception', 'sat', 0, True, None, f'{type(p.exc).__name__}: {p.exc}')
            continue
        r, nc, dc = p.value
        ok_pl = len(nc) == 1 and len(dc) == 1 and nc[0]['code'] is code and nc[0]['error_rate'] == 0.25 and \
            nc[0]['rng'] is rng_token and sorted(r) == sorted(['error', 'syndrome', 'correction', 'effective_error',
                                                                'success', 'codespace'])
        bad['plumbing'].append(z3_and(p.pc + [z3.BoolVal(not ok_pl)]))
        if not ok_pl:
            continue
        eb, cb = nc[0]['bits'], dc[0]['bits']
        allbits = eb + cb
        syn, eff, cs, succ = specs(code, eb, cb)
        cell = lambda x: [bool_term(c) for c in np.asarray(x).reshape(-1)]
        differs = lambda got, spec: z3_or([z3.BoolVal(len(got) != len(spec))] +
                                          [z3_xor([a, b]) for a, b in zip(got, spec)])
        # the syndrome handed to the decoder and the recorded one are the syndrome of the generated error;
        # the recorded error / correction are the generated ones
        bad['syndrome'].append(z3_and(p.pc + [z3.Or(differs(cell(r['syndrome']), syn),
                                                    differs(cell(dc[0]['syndrome']), syn),
                                                    differs(cell(r['error']), eb),
                                                    differs(cell(r['correction']), cb))]))
        bad['effective_error'].append(z3_and(p.pc + [differs(cell(r['effective_error']), eff)]))
        bad['codespace'].append(z3_and(p.pc + [z3.Xor(bool_term(r['codespace']), cs)]))
        bad['success'].append(z3_and(p.pc + [z3.Xor(bool_term(r['success']), succ)]))

    def wit(m):
        return dict(bits=[1 if z3.is_true(m.eval(b, model_completion=True)) else 0 for b in allbits], n=n)
    for k, v in bad.items():
        col.prove(f'C11/run_once/{k}', [], z3_or(v), wit,
                  {'syndrome': 'recorded syndrome = syndrome(error); decoder sees that syndrome',
                   'effective_error': 'logical effect of error + correction',
                   'codespace': 'codespace <=> zero residual syndrome',
                   'success': 'success <=> codespace and zero effective error',
                   'plumbing': 'one generate(code, error_rate, rng=<the supplied rng>), one decode; result keys'}[k])
    col.prove('C11/run_once/paths-cover', [], z3.Not(z3_or([z3_and(p.pc) for p in ps])), wit)
    return col.result()


def w_sim(cfg, tier):
    """DirectSimulation: run(k1); run(k2) with symbolic k1, k2; accounting and estimator."""
    ds = _install()
    code = common.make_code(cfg.split(' ')[1])
    kmax = int(cfg.split('kmax=')[1])
    n = code.n
    col = hz.Collector(cfg)
    D = ds.DirectSimulation
    col.encoded(D.__init__, D._run, D.get_results, ds.run_once)
    rng_token = object()
    eng = Engine(name=cfg, max_paths=20000)
    with eng:
        k1 = eng.integer('k1', 0, kmax)
        k2 = eng.integer('k2', 0, kmax)

        def fn():
            noise, dec = StubNoise(n), StubDecoder(n)
            sim = D(code, noise, dec, 0.25, rng=rng_token, verbose=False)
            sim.run(k1)            # range(k1) realises the run length
            sim.run(k2)
            res = sim.results
            out = sim.get_results() if (len(res['success']) > 0) else None
            return dict(res=res, out=out, noise=noise.calls, dec=dec.calls)
        ps = eng.explore(fn)
    col.absorb(eng)
    K1, K2 = k1.t, k2.t

    def wit(m):
        return dict(k1=m.eval(K1, model_completion=True).as_long(), k2=m.eval(K2, model_completion=True).as_long())
    b_len, b_est, b_rng = [], [], []
    for p in ps:
        if p.exc is not None:
            r, m, dt = col.solve(eng.base + p.pc)
            col.record('C11/simulation/no-exception', r, dt, True, wit(m) if m else None,
                       f'{type(p.exc).__name__}: {p.exc}')
            continue
        v = p.value
        res = v['res']
        lens = [len(res[k]) for k in ('effective_error', 'success', 'codespace')]
        b_len.append(z3_and(p.pc + [z3.Or([K1 + K2 != L for L in lens] + [term_of(res['n_runs'], 'int') != K1 + K2] +
                                          [z3.BoolVal(len(v['noise']) != lens[0])])]))
        b_rng.append(z3_and(p.pc + [z3.BoolVal(any(c['rng'] is not rng_token for c in v['noise']))]))
        if v['out'] is not None:
            o = v['out']
            nruns = lens[1]
            from symx.core import is_symbolic
            if not any(is_symbolic(x) for x in list(res['success']) + [o['p_est'], o['p_se'], o['n_fail']]):
                # every trial outcome is concrete on this path (run_once forks on them): the estimator is
                # ordinary floating point, compared with a relative tolerance instead of exact reals
                nf = sum(1 for s_ in res['success'] if not s_)
                pe_c = nf / nruns
                wrong = int(o['n_fail']) != nf or int(o['n_runs']) != nruns or abs(float(o['p_est']) - pe_c) > 1e-12 \
                    or abs(float(o['p_se']) - (pe_c * (1 - pe_c) / (nruns + 1)) ** 0.5) > 1e-12
                b_est.append(z3_and(p.pc + [z3.BoolVal(bool(wrong))]))
            else:
                nfail = z3.Sum([z3.If(bool_term(s_), 0, 1) for s_ in res['success']])
                pe = term_of(o['p_est'], 'real')
                se = term_of(o['p_se'], 'real')
                b_est.append(z3_and(p.pc + [z3.Or(term_of(o['n_fail'], 'int') != nfail,
                                                  term_of(o['n_runs'], 'int') != nruns,
                                                  pe * nruns != z3.ToReal(nfail),
                                                  se * se * (nruns + 1) != pe * (1 - pe), se < 0)]))
    col.prove('C11/simulation/all-lists-have-length-n_runs', eng.base, z3_or(b_len), wit,
              f'after run(k1); run(k2): len(lists) == n_runs == k1 + k2 == number of generated errors; k1, k2 <= {kmax}')
    col.prove('C11/simulation/estimator-is-n_fail-over-n_runs', eng.base, z3_or(b_est), wit,
              'p_est * n_runs == n_fail (failures counted from the recorded success flags); p_se^2 (n+1) == p(1-p)')
    col.prove('C11/simulation/only-the-supplied-rng-is-used', eng.base, z3_or(b_rng), wit,
              'every generate() call receives the simulation\'s own rng object: equal seeds give equal runs')
    col.prove('C11/simulation/paths-cover', eng.base, z3.Not(z3_or([z3_and(Engine.branch_pc(p)) for p in ps])), wit)
    return col.result()


REAL_CANDIDATES = [
    ('Toric2DCode(2,2)', (1 / 3, 1 / 3, 1 / 3, None, None), 'MatchingDecoder'),
    ('Toric2DCode(2,2)', (0.1, 0.1, 0.8, None, None), 'MatchingDecoder'),
    ('Toric2DCode(2,2)', (0.1, 0.1, 0.8, 'XZZX', None), 'MatchingDecoder'),
    ('Toric2DCode(2,2)', (0.1, 0.1, 0.8, 'XZZX', {'deformation_axis': 'x'}), 'BeliefPropagationOSDDecoder'),
    ('Toric2DCode(2,2)', (0.1, 0.1, 0.8, 'XZZX', {'deformation_axis': 'x'}), 'MatchingDecoder'),
    ('Toric2DCode(2,3)', (0.1, 0.1, 0.8, None, None), 'BeliefPropagationOSDDecoder'),
    ('Planar2DCode(2,2)', (0.05, 0.05, 0.9, None, None), 'MatchingDecoder'),
    ('Planar2DCode(2,2)/XZZX/x', (0.1, 0.1, 0.8, 'XZZX', {'deformation_axis': 'x'}), 'BeliefPropagationOSDDecoder'),
    ('RotatedPlanar2DCode(3,3)', (1.0, 0.0, 0.0, None, None), 'MatchingDecoder'),
]


_SHARED_CODES: dict = {}
_SHARED_EMS: dict = {}


def real_objects(i, share):
    """(code, noise model) of candidate i; share=True: one code object per code configuration and one
    noise-model object per candidate in this process (as a user script holding on to its objects does)."""
    from panqec.error_models import PauliErrorModel
    cfg, (rx, ry, rz, dn, dk), dname = REAL_CANDIDATES[i]
    mk = lambda: PauliErrorModel(rx, ry, rz, deformation_name=dn, deformation_kwargs=dk)
    if not share:
        return common.make_code(cfg), mk()
    if cfg not in _SHARED_CODES:
        _SHARED_CODES[cfg] = common.make_code(cfg)
    key = (rx, ry, rz, dn, str(dk))
    if key not in _SHARED_EMS:
        _SHARED_EMS[key] = mk()
    return _SHARED_CODES[cfg], _SHARED_EMS[key]


def real_query(i, rate=0.3):
    """A read-only question to the shared noise model of candidate i between two runs: the probability of a
    weight-2 error (X on qubit 0, Y on qubit 1), plain and log form."""
    code, em = real_objects(i, True)
    e = np.zeros(2 * code.n, dtype=np.uint8)
    e[0] = e[1] = e[code.n + 1] = 1
    with np.errstate(divide='ignore'):
        em.error_probability(e, code, rate)
        em.error_probability(e, code, rate, log_output=True)


def real_run(i, n_trials=12, rate=0.3, seed=7, share=False):
    """One real DirectSimulation (real classes, real engines) for candidate i; returns its results as JSON."""
    import panqec.decoders as pd_
    from panqec.simulation import DirectSimulation
    dname = REAL_CANDIDATES[i][2]
    code, em = real_objects(i, share)
    dec = getattr(pd_, dname)(code, em, rate)
    sim = DirectSimulation(code, em, dec, rate, rng=np.random.default_rng(seed), verbose=False)
    sim.run(n_trials)
    res = dict(sim.results)
    res.update(sim.get_results())
    return json.dumps({k_: (np.asarray(v).tolist() if isinstance(v, (list, np.ndarray)) else
                            (float(v) if isinstance(v, (float, np.floating)) else v))
                       for k_, v in res.items() if k_ != 'wall_time'}, sort_keys=True, default=str)


def trial_consistency(i, blob):
    """Per-trial relations of the property, recomputed from the recorded error of every trial."""
    cfg = REAL_CANDIDATES[i][0]
    code = common.make_code(cfg)
    res = json.loads(blob)
    n_runs = len(res['success'])
    out = []
    for key in ('effective_error', 'codespace', 'success'):
        if len(res[key]) != n_runs:
            out.append(f'{key} has {len(res[key])} entries, n_runs {n_runs}')
    fails = sum(1 for s_ in res['success'] if not s_)
    for t in range(n_runs):
        if bool(res['success'][t]) != (bool(res['codespace'][t]) and not any(res['effective_error'][t])):
            out.append(f'trial {t}: success {res["success"][t]} codespace {res["codespace"][t]} effective '
                       f'{res["effective_error"][t]}')
    if 'p_est' in res and n_runs and abs(res['p_est'] - fails / n_runs) > 1e-12:
        out.append(f'p_est {res["p_est"]} != {fails}/{n_runs}')
    return out


def aborted_accounting(k1, k2, a, k3, seed=3):
    """run(k1); run(k2) interrupted by a KeyboardInterrupt raised inside the a-th decode of that call
    (a >= k2: not interrupted); run(k3).  Returns what is inconsistent in the accounting afterwards."""
    import panqec.decoders as pd_
    from panqec.error_models import PauliErrorModel
    from panqec.simulation import DirectSimulation
    code = common.make_code('Toric2DCode(2,2)')
    em = PauliErrorModel(1 / 3, 1 / 3, 1 / 3)
    inner = pd_.MatchingDecoder(code, em, 0.3)
    state = dict(armed=False, n=0)

    class Interrupting(pd_.MatchingDecoder):
        def decode(self, syndrome, **kw):
            if state['armed']:
                if state['n'] == a:
                    state['armed'] = False
                    raise KeyboardInterrupt()
                state['n'] += 1
            return inner.decode(syndrome, **kw)
    dec = Interrupting(code, em, 0.3)
    sim = DirectSimulation(code, em, dec, 0.3, rng=np.random.default_rng(seed), verbose=False)
    sim.run(k1)
    state.update(armed=True, n=0)
    try:
        sim.run(k2)
    except KeyboardInterrupt:
        pass
    state['armed'] = False
    sim.run(k3)
    res = sim.results
    lens = {k_: len(res[k_]) for k_ in ('effective_error', 'success', 'codespace')}
    out = []
    if len(set(lens.values())) != 1:
        out.append(f'list lengths differ: {lens}')
    n_rec = lens['success']
    summary = sim.get_results() if n_rec else None
    if res['n_runs'] != n_rec or sim.n_results != n_rec:
        out.append(f'n_runs counter {res["n_runs"]} / n_results {sim.n_results}, {n_rec} trials recorded')
    if summary is not None:
        n_fail = sum(1 for s_ in res['success'] if not s_)
        if int(summary['n_runs']) != n_rec or int(summary['n_fail']) != n_fail or \
                abs(float(summary['p_est']) - n_fail / n_rec) > 1e-12:
            out.append(f'summary {dict(n_runs=summary["n_runs"], n_fail=summary["n_fail"], p_est=summary["p_est"])} '
                       f'for {n_rec} recorded trials with {n_fail} failures')
    want = k1 + min(a, k2) + k3
    if n_rec != want:
        out.append(f'{n_rec} trials recorded, {want} completed')
    return out


def w_aborted(cfg, tier):
    """'aborted': interleavings of run(k) calls one of which is left by a KeyboardInterrupt inside a trial
    (solver-chosen k1, k2, interrupt position, k3; realised; real classes): lists equally long, counter and
    summary agree with the recorded trials, p_est = n_fail / n_runs."""
    from panqec.simulation import DirectSimulation
    col = hz.Collector(cfg)
    col.encoded(DirectSimulation._run, DirectSimulation.get_results)
    kmax = 2 if tier == 'quick' else 3
    eng = Engine(name=cfg, max_paths=5000)
    with eng:
        k1, k2, k3 = eng.integer('k1', 0, kmax), eng.integer('k2', 1, kmax + 1), eng.integer('k3', 0, kmax)
        a = eng.integer('interrupt_at', 0, kmax + 1)
        eng.assume_base((a <= k2).t)

        def fn():
            v = (int(k1), int(k2), int(a), int(k3))
            return v, aborted_accounting(*v)
        ps = eng.explore(fn)
    col.absorb(eng)
    bad, w = [], [None]
    for p in ps:
        if p.exc is not None:
            bad.append(z3_and(p.pc))
            w[0] = w[0] or dict(aborted=True, exception=f'{type(p.exc).__name__}: {p.exc}')
            continue
        v, out = p.value
        bad.append(z3_and(p.pc + [z3.BoolVal(bool(out))]))
        if out and (w[0] is None or 'history' not in w[0]):
            w[0] = dict(aborted=True, history=list(v), inconsistent=out[:3])
    col.prove('C11/real/accounting-after-an-interrupted-run', eng.base, z3_or(bad), lambda m: w[0],
              f'{len(ps)} realised histories run(k1); run(k2) interrupted in trial a; run(k3)')
    return col.result()


def w_real(cfg, tier):
    """cfg = 'real': the real DirectSimulation, real classes and engines.  The solver chooses (realised)
    which simulation runs FIRST in the process and which SECOND (same seed); the second's results must be
    bit-for-bit those of the same simulation alone in a fresh process, and satisfy the per-trial relations."""
    from panqec.simulation import DirectSimulation
    col = hz.Collector(cfg)
    col.encoded(DirectSimulation._run, DirectSimulation.get_results)
    m = len(REAL_CANDIDATES)
    alone = [hz.in_forked_child(lambda i=i: real_run(i)) for i in range(m)]
    again = [hz.in_forked_child(lambda i=i: real_run(i)) for i in range(m)]
    for i in range(m):
        col.record('C11/real/same-seed-same-results-in-two-processes', 'unsat' if alone[i] == again[i] else 'sat', 0,
                   False, dict(real=True, second=i, first=None) if alone[i] != again[i] else None, REAL_CANDIDATES[i][0])
        bad = trial_consistency(i, alone[i])
        col.record('C11/real/per-trial-relations', 'sat' if bad else 'unsat', 0, False,
                   dict(real=True, second=i, first=None, relations=bad[:3]) if bad else None, REAL_CANDIDATES[i][0])
    eng = Engine(name=cfg, max_paths=5000)
    with eng:
        a, b = eng.integer('first', 0, m - 1), eng.integer('second', 0, m - 1)
        qv = eng.integer('query_between', 0, 1)

        def fn():
            i, j, q = int(a), int(b), int(qv)

            def history():
                real_run(i, share=True)
                if q:
                    real_query(j)
                return real_run(j, share=True)
            return i, j, q, hz.in_forked_child(history)
        ps = eng.explore(fn)
    col.absorb(eng)
    bad, w = [], [None]
    for p in ps:
        if p.exc is not None:
            bad.append(z3_and(p.pc))
            w[0] = w[0] or dict(real=True, exception=f'{type(p.exc).__name__}: {p.exc}')
            continue
        i, j, q, blob = p.value
        diff = blob != alone[j]
        bad.append(z3_and(p.pc + [z3.BoolVal(diff)]))
        if diff and (w[0] is None or 'first' not in w[0]):
            w[0] = dict(real=True, first=i, second=j, query=q)
    col.prove('C11/real/results-do-not-depend-on-what-ran-before-in-the-process', eng.base, z3_or(bad), lambda mo: w[0],
              f'{len(ps)} realised histories: ordered pairs of real simulations (12 trials each, seed 7, shared code and noise-model objects), optionally a read-only error_probability query in between; one forked process each; '
              'compared with the second simulation alone in a fresh process, bit for bit')
    return col.result()


def worker(cfg, tier='quick'):
    if cfg.startswith('aborted'):
        return w_aborted(cfg, tier)
    if cfg.startswith('real'):
        return w_real(cfg, tier)
    return {'once': w_once, 'sim': w_sim}[cfg.split()[0]](cfg, tier)


def replay(path):
    import panqec.simulation._direct_simulation as ds
    with open(path) as f:
        d = json.load(f)
    w, oid, cfg = d['witness'], d['oid'], d['config']
    if w.get('aborted'):
        if 'history' in w:
            out = aborted_accounting(*w['history'])
            print('history (k1, k2, interrupt at, k3) =', w['history'], '->', out)
            bad = bool(out)
        else:
            print(w.get('exception'))
            res = worker(cfg)
            bad = any(o['oid'] == oid and o['verdict'] == 'sat' for o in res['obs'])
        print('REPLAY', 'reproduced' if bad else 'not-reproduced', oid, cfg)
        return 0
    if w.get('real'):
        bad = False
        if 'second' in w:
            j = w['second']
            alone = hz.in_forked_child(lambda: real_run(j))
            if w.get('first') is not None:
                real_run(w['first'], share=True)
            if w.get('query'):
                real_query(j)
            got = real_run(j, share=True)
            bad = got != alone or bool(trial_consistency(j, got)) if 'relations' in w or w.get('first') is None \
                else got != alone
            print('first', w.get('first'), 'second', j, 'differs from the fresh-process run:', got != alone,
                  'relations:', trial_consistency(j, got)[:2])
        else:
            print(w.get('exception'))
            res = worker(cfg)
            bad = any(o['oid'] == oid and o['verdict'] == 'sat' for o in res['obs'])
        print('REPLAY', 'reproduced' if bad else 'not-reproduced', oid, cfg)
        return 0
    code = common.make_code(cfg.split(' ')[1])
    n = code.n
    bad = False
    try:
        class N:
            id = 'n'
            params = {}

            def __init__(self, errs):
                self.errs, self.rngs = list(errs), []

            def generate(self, code, error_rate, rng=None):
                self.rngs.append(rng)
                return self.errs.pop(0).copy()

        class Dc:
            id = 'd'
            params = {}

            def __init__(self, cors):
                self.cors, self.seen = list(cors), []

            def decode(self, s, **k):
                self.seen.append(np.array(s).copy())
                return self.cors.pop(0).copy()
        if cfg.startswith('once'):
            bits = np.array(w['bits'], dtype=np.uint8)
            e, c = bits[:2 * n], bits[2 * n:]
            tok = object()
            nz, dc = N([e]), Dc([c])
            r = ds.run_once(code, nz, dc, 0.25, rng=tok)
            tot = (e + c) % 2
            Hd = code.stabilizer_matrix.toarray()
            lam = lambda v: np.concatenate([v[n:], v[:n]])
            syn = (Hd @ lam(e)) % 2
            res = (Hd @ lam(tot)) % 2
            eff = np.concatenate([(code.logicals_z @ lam(tot)) % 2, (code.logicals_x @ lam(tot)) % 2])
            cs = not res.any()
            checks = dict(syndrome=(np.array(r['syndrome']) == syn).all() and (dc.seen[0] == syn).all(),
                          effective_error=(np.array(r['effective_error']).reshape(-1) == eff).all(),
                          codespace=bool(r['codespace']) == cs,
                          success=bool(r['success']) == (cs and not eff.any()),
                          plumbing=nz.rngs == [tok])
            key = oid.split('/')[-1]
            bad = not checks.get(key, True)
        else:
            k1, k2 = w['k1'], w['k2']
            rng = np.random.default_rng(0)
            # alternate successful (no error, no correction) and failing trials so that 0 < p_est < 1
            errs = [np.zeros(2 * n, dtype=np.uint8) if i % 2 == 0 else rng.integers(0, 2, 2 * n).astype(np.uint8)
                    for i in range(k1 + k2)]
            cors = [np.zeros(2 * n, dtype=np.uint8) for _ in range(k1 + k2)]
            tok = object()
            nz, dc = N(errs), Dc(cors)
            sim = ds.DirectSimulation(code, nz, dc, 0.25, rng=tok, verbose=False)
            sim.run(k1)
            sim.run(k2)
            res = sim.results
            lens = {len(res[k]) for k in ('effective_error', 'success', 'codespace')}
            if 'length' in oid:
                bad = lens != {k1 + k2} or res['n_runs'] != k1 + k2
            elif 'rng' in oid:
                bad = any(x is not tok for x in nz.rngs)
            elif 'estimator' in oid and k1 + k2 > 0:
                o = sim.get_results()
                nf = sum(1 for s in res['success'] if not s)
                pe = nf / (k1 + k2)
                bad = o['n_fail'] != nf or abs(o['p_est'] - pe) > 1e-12 or \
                    abs(o['p_se'] - np.sqrt(pe * (1 - pe) / (k1 + k2 + 1))) > 1e-12
    except Exception as ex:
        print('exception on replay:', type(ex).__name__, ex)
        bad = True
    print('REPLAY', 'reproduced' if bad else 'not-reproduced', oid, cfg)
    return 0


def configs(tier):
    once = ['Toric2DCode(2,2)', 'Planar2DCode(2,3)/XZZX/x', 'RotatedPlanar2DCode(3,3)/XY', 'Toric3DCode(2,2,2)',
            'XCubeCode(2,2,2)', 'RotatedToric3DCode(3,2,2)']
    if tier != 'quick':
        once = common.code_configs('quick', deformed=True, max_n=60)
    out = [f'once {c}' for c in once]
    out += ['real', 'aborted']
    out += ['sim RotatedPlanar2DCode(2,2) kmax=2', 'sim Toric2DCode(2,2) kmax=2'] if tier == 'quick' else \
        ['sim RotatedPlanar2DCode(2,2) kmax=3', 'sim Toric2DCode(2,2) kmax=3', 'sim Planar2DCode(2,2)/XY kmax=3']
    return out


def main(argv=None):
    a = hz.std_args(argv)
    if a.replay:
        return replay(a.replay)
    t0 = time.time()
    cfgs = configs(a.tier)
    if a.only:
        cfgs = [c for c in cfgs if a.only in c]
    res = hz.run_configs('checks.c11', 'worker', cfgs, dict(tier=a.tier), jobs=a.jobs)
    return hz.finish(
        PID, a.tier, a.seed, res, t0,
        assumptions=['noise model and decoder are stubs returning ARBITRARY binary vectors (fresh symbols per call): '
                     'run_once must be consistent whatever they return',
                     'floats are reals for the estimator formulas'],
        bounds=dict(once='symbolic error and correction (all 4^n x 4^n pairs) per configuration',
                    sim='run lengths k1, k2 in 0..2 (quick) / 0..3 (thorough), realised; per-trial contents symbolic'),
        stubs=['error model -> StubNoise', 'decoder -> StubDecoder'],
        outside=['"the failure frequency is an unbiased estimate of the exact failure probability": a statistical '
                 'statement about sampling, outside this technique (its deterministic core - exact per-trial '
                 'classification and the stated sampler - is this check plus C07)',
                 'bit-for-bit reproducibility of third-party decoders (C06 covers panqec-side purity)'])


if __name__ == '__main__':
    sys.exit(main())
