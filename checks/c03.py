"""C03 — Pauli representations are lossless and the symplectic product is exact.

Real functions executed symbolically: bpauli.bs_prod (dense path, _bs_prod_sparse, list conversion,
shape squeezing) for every accepted representation pair, pauli_string_to_bvector,
bvector_to_pauli_string, bsf_to_pauli (dense + sparse), pauli_to_bsf, bvector_to_int,
int_to_bvector, bsf_wt (dense + sparse), brank/gf2_rank, StabilizerCode.measure_syndrome."""
import itertools
import json
import sys
import time

import numpy as np
import z3

from symx import Engine, as_sa, install, gf2, csr_shim, SA
from symx.core import z3_xor, z3_and, z3_or, bool_term, Bit, SymInt, term_of, HarnessError
from symx import harness as hz
from checks import common

PID = 'C03'


def _install():
    import panqec.bpauli
    import panqec.bsparse
    import panqec.codes.base._stabilizer_code as sc
    install(panqec.bpauli, panqec.bsparse, sc)


def mk(stem, rows, n):
    """rows x 2n matrix of fresh Boolean variables; rows == 0 means a 1-D vector."""
    r = max(rows, 1)
    return [[z3.Bool(f'{stem}_{i}_{j}') for j in range(2 * n)] for i in range(r)]


def rep(vars_, rows, kind):
    cells = [[Bit(v) for v in row] for row in vars_]
    if kind == 'list':
        return cells if rows else cells[0]
    a = as_sa(np.array(cells, dtype=object) if rows else np.array(cells[0], dtype=object))
    if kind == 'sa':
        return a
    if kind == 'csr':
        return csr_shim(a.reshape(1, -1) if not rows else a, dtype='uint8')
    raise ValueError(kind)


def spec_cell(ra, rb, n):
    return z3_xor([z3.And(ra[q], rb[n + q]) for q in range(n)] +
                  [z3.And(ra[n + q], rb[q]) for q in range(n)])


def values(m, vars_):
    return [[1 if z3.is_true(m.eval(v, model_completion=True)) else 0 for v in row] for row in vars_]


def w_bs_prod(cfg, tier='quick'):
    """cfg = 'bs_prod n=<n> a=<rows>:<kind> b=<rows>:<kind>'"""
    _install()
    import panqec.bpauli as bp
    parts = dict(p.split('=') for p in cfg.split()[1:])
    n = int(parts['n'])
    ra, ka = parts['a'].split(':')
    rb, kb = parts['b'].split(':')
    ra, rb = int(ra), int(rb)
    col = hz.Collector(cfg)
    col.encoded(bp.bs_prod, bp._bs_prod_sparse)
    A, B, A2 = mk('a', ra, n), mk('b', rb, n), mk('c', ra, n)
    eng = Engine(name=cfg)
    with eng:
        def fn():
            a, b = rep(A, ra, ka), rep(B, rb, kb)
            a2 = rep(A2, ra, ka)
            asum = rep([[z3_xor([x, y]) for x, y in zip(r1, r2)] for r1, r2 in zip(A, A2)], ra, ka)
            return dict(ab=bp.bs_prod(a, b), ba=bp.bs_prod(rep(B, rb, kb), rep(A, ra, ka)),
                        aa=bp.bs_prod(rep(A, ra, ka), rep(A, ra, ka)),
                        a2b=bp.bs_prod(a2, rep(B, rb, kb)), sb=bp.bs_prod(asum, rep(B, rb, kb)))
        paths = eng.explore(fn)
    col.absorb(eng)

    def wit(m):
        return dict(a=values(m, A) if ra else values(m, A)[0], b=values(m, B) if rb else values(m, B)[0],
                    a2=values(m, A2) if ra else values(m, A2)[0], n=n, a_kind=ka, b_kind=kb)

    Ra, Rb = max(ra, 1), max(rb, 1)
    alts = dict(cells=[], shape=[], sym=[], zero=[], bilin=[])
    for p in paths:
        if p.exc is not None:
            r, m, dt = col.solve(p.pc)
            col.record('C03/bs_prod/no-exception', r, dt, True, wit(m) if m else None,
                       f'{type(p.exc).__name__}: {p.exc}')
            continue
        v = {k: np.asarray(x) for k, x in p.value.items()}
        ab = v['ab']
        # documented shapes: (2-D, 1-D) -> (rows_a,), (1-D, 2-D) -> (rows_b,), (2-D, 2-D) -> (ra, rb)
        if ra and not rb:
            want = (ra,)
        elif rb and not ra:
            want = (rb,)
        elif ra and rb:
            want = (ra, rb)
        else:
            want = None
        shape_ok = True
        if want is not None and tuple(ab.shape) != want and not (ra and rb and ab.size == ra * rb and
                                                                 (ra == 1 or rb == 1)):
            shape_ok = False
        if ab.size != Ra * Rb:
            shape_ok = False
        alts['shape'].append(z3_and(p.pc + [z3.BoolVal(not shape_ok)]))
        if ab.size != Ra * Rb:
            continue
        abm = ab.reshape(Ra, Rb)
        bam = v['ba'].reshape(Rb, Ra)
        aam = v['aa'].reshape(Ra, Ra)
        a2b = v['a2b'].reshape(Ra, Rb)
        sb = v['sb'].reshape(Ra, Rb)
        d_cells, d_sym, d_zero, d_bil = [], [], [], []
        for i in range(Ra):
            d_zero.append(bool_term(aam[i, i]))
            for j in range(Rb):
                d_cells.append(z3_xor([bool_term(abm[i, j]), spec_cell(A[i], B[j], n)]))
                d_sym.append(z3_xor([bool_term(abm[i, j]), bool_term(bam[j, i])]))
                d_bil.append(z3_xor([bool_term(sb[i, j]), bool_term(abm[i, j]), bool_term(a2b[i, j])]))
        alts['cells'].append(z3_and(p.pc + [z3_or(d_cells)]))
        alts['sym'].append(z3_and(p.pc + [z3_or(d_sym)]))
        alts['zero'].append(z3_and(p.pc + [z3_or(d_zero)]))
        alts['bilin'].append(z3_and(p.pc + [z3_or(d_bil)]))
    col.prove('C03/bs_prod/cells-equal-symplectic-form', [], z3_or(alts['cells']), wit,
              'every output cell = x_a.z_b + z_a.x_b (mod 2)')
    col.prove('C03/bs_prod/output-shape', [], z3_or(alts['shape']), wit)
    col.prove('C03/bs_prod/symmetric', [], z3_or(alts['sym']), wit)
    col.prove('C03/bs_prod/zero-on-equal-arguments', [], z3_or(alts['zero']), wit)
    col.prove('C03/bs_prod/bilinear', [], z3_or(alts['bilin']), wit)
    col.prove('C03/bs_prod/paths-cover', [], z3.Not(z3_or([z3_and(p.pc) for p in paths])), wit)
    return col.result()


_LETTER = {(0, 0): 'I', (1, 0): 'X', (1, 1): 'Y', (0, 1): 'Z'}


def w_converters(cfg, tier='quick'):
    """cfg = 'converters n=<n>': all round trips with a symbolic bvector (realised where the real
    code builds strings / integers from cells)."""
    _install()
    import panqec.bpauli as bp
    import panqec.bsparse as bsp
    n = int(cfg.split('=')[1])
    col = hz.Collector(cfg)
    col.encoded(bp.pauli_string_to_bvector, bp.bvector_to_pauli_string, bp.bsf_to_pauli, bp.pauli_to_bsf,
                bp.bvector_to_int, bp.int_to_bvector, bp.bsf_wt, bp.brank, bp.gf2_rank,
                bp.bvectors_to_ints, bp.ints_to_bvectors)
    V = [z3.Bool(f'v_{i}') for i in range(2 * n)]
    eng = Engine(name=cfg)
    with eng:
        def fn():
            v = as_sa([Bit(b) for b in V])
            wt_sym = bp.bsf_wt(v)                           # symbolic weight (no realisation)
            s1 = bp.bvector_to_pauli_string(v)              # realises (dict lookup on cells)
            s2 = bp.bsf_to_pauli(v)
            conc = np.array([int(c) for c in v], dtype=np.uint8)   # now concrete on this path
            csr = bsp.from_array(conc.reshape(1, -1))
            s3 = bp.bsf_to_pauli(csr)[0]
            back1 = bp.pauli_string_to_bvector(s1)
            back2 = bp.pauli_to_bsf(s1)
            i1 = bp.bvector_to_int(v)
            back3 = bp.int_to_bvector(i1, n)
            back4 = bp.ints_to_bvectors(bp.bvectors_to_ints([v]), n)[0]
            wt_sparse = bp.bsf_wt(csr) if csr.nnz else 0
            wt_dense = bp.bsf_wt(conc)
            return dict(wt_sym=wt_sym, s1=s1, s2=s2, s3=s3, back1=back1, back2=back2, i1=i1,
                        back3=back3, back4=back4, wt_sparse=wt_sparse, wt_dense=wt_dense, conc=conc)
        paths = eng.explore(fn)
    col.absorb(eng)

    def wit(m):
        return dict(v=[1 if z3.is_true(m.eval(b, model_completion=True)) else 0 for b in V], n=n)

    checks = {k: [] for k in ['strings-agree', 'string-is-letterwise-image', 'string-roundtrip',
                              'int-roundtrip', 'weights-agree', 'symbolic-weight']}
    for p in paths:
        if p.exc is not None:
            r, m, dt = col.solve(p.pc)
            col.record('C03/converters/no-exception', r, dt, True, wit(m) if m else None,
                       f'{type(p.exc).__name__}: {p.exc}')
            continue
        v = p.value
        conc = [int(x) for x in v['conc']]
        expect = ''.join(_LETTER[(conc[i], conc[i + n])] for i in range(n))
        wt = sum(1 for ch in expect if ch != 'I')
        bad = dict()
        bad['strings-agree'] = not (v['s1'] == v['s2'] == v['s3'])
        bad['string-is-letterwise-image'] = v['s1'] != expect
        bad['string-roundtrip'] = not (list(map(int, v['back1'])) == conc and list(map(int, v['back2'])) == conc)
        bad['int-roundtrip'] = not (list(map(int, v['back3'])) == conc and list(map(int, v['back4'])) == conc
                                    and int(v['i1']) == int(''.join(map(str, conc)), 2))
        bad['weights-agree'] = not (int(v['wt_sparse']) == int(v['wt_dense']) == wt)
        for k, b in bad.items():
            checks[k].append(z3_and(p.pc + [z3.BoolVal(bool(b))]))
        # the path pins every cell, so the symbolic weight must evaluate to wt under the pc
        checks['symbolic-weight'].append(z3_and(p.pc + [term_of(v['wt_sym']) != wt]))
    for k, alts in checks.items():
        col.prove(f'C03/converters/{k}', [], z3_or(alts), wit)
    col.prove('C03/converters/paths-cover', [], z3.Not(z3_or([z3_and(p.pc) for p in paths])), wit,
              f'{len(paths)} paths = every bvector of length {2 * n} (realised by the string conversions)')
    return col.result()


def w_stacks(cfg, tier='quick'):
    """cfg = 'stacks n=<n> rows=<r>': the stack forms of the converters -- an r-row dense array and an r-row
    sparse matrix (all r*2n bits symbolic, realised by the string construction): bsf_to_pauli gives one
    string per row, each the letterwise image of ITS row (no state carried from row to row), dense and sparse
    agree, and every string converts back to its row.  (Weights of multi-row stacks are not compared: the
    property speaks of vectors and single sparse rows there, and on the pinned tree bsf_wt of a dense stack is
    the total weight while bsf_wt of a sparse stack is the size of the union of the supports.)"""
    _install()
    import panqec.bpauli as bp
    import panqec.bsparse as bsp
    parts = dict(x.split('=') for x in cfg.split()[1:])
    n, r = int(parts['n']), int(parts['rows'])
    col = hz.Collector(cfg)
    col.encoded(bp.bsf_to_pauli, bp.pauli_to_bsf, bp.bsf_wt)
    V = [[z3.Bool(f'v_{k}_{i}') for i in range(2 * n)] for k in range(r)]
    eng = Engine(name=cfg, max_paths=100000)
    with eng:
        def fn():
            conc = np.array([[int(Bit(b)) for b in row] for row in V], dtype=np.uint8)   # realised
            dense = bp.bsf_to_pauli(conc)
            sparse = bp.bsf_to_pauli(bsp.from_array(conc))
            back = [np.asarray(bp.pauli_string_to_bvector(s_)).astype(int).tolist() for s_ in dense]
            return dict(conc=conc.tolist(), dense=list(dense), sparse=list(sparse), back=back)
        paths = eng.explore(fn)
    col.absorb(eng)

    def wit(m):
        return dict(stack=[[1 if z3.is_true(m.eval(b, model_completion=True)) else 0 for b in row] for row in V], n=n)
    checks = {k: [] for k in ['each-row-is-the-image-of-its-own-row', 'dense-and-sparse-agree', 'roundtrip']}
    for p in paths:
        if p.exc is not None:
            rr, m, dt = col.solve(p.pc)
            col.record('C03/stacks/no-exception', rr, dt, True, wit(m) if m else None, f'{type(p.exc).__name__}: {p.exc}')
            continue
        v = p.value
        expect = [''.join(_LETTER[(row[i], row[i + n])] for i in range(n)) for row in v['conc']]
        bad = {'each-row-is-the-image-of-its-own-row': v['dense'] != expect or v['sparse'] != expect,
               'dense-and-sparse-agree': v['dense'] != v['sparse'],
               'roundtrip': v['back'] != v['conc']}
        for k, b_ in bad.items():
            checks[k].append(z3_and(p.pc + [z3.BoolVal(bool(b_))]))
    for k, alts in checks.items():
        col.prove(f'C03/stacks/{k}', [], z3_or(alts), wit, f'{len(paths)} realised stacks of {r} rows x {2 * n} bits')
    return col.result()


def w_converters_large(cfg, tier='quick'):
    """cfg = 'converters-large n=<n>': the integer / string conversions on LONG vectors (machine-word
    boundaries): symbolic bits at the first, last and middle positions, zero elsewhere."""
    _install()
    import panqec.bpauli as bp
    n = int(cfg.split('=')[1])
    col = hz.Collector(cfg)
    col.encoded(bp.bvector_to_int, bp.int_to_bvector, bp.bvectors_to_ints, bp.ints_to_bvectors,
                bp.bvector_to_pauli_string, bp.pauli_string_to_bvector, bp.bsf_wt)
    pos = sorted({0, 1, n - 1, n, 2 * n - 2, 2 * n - 1})
    V = {i: z3.Bool(f'v_{i}') for i in pos}
    eng = Engine(name=cfg)
    with eng:
        def fn():
            v = as_sa([Bit(V[i]) if i in V else 0 for i in range(2 * n)])
            iv = bp.bvector_to_int(v)                    # realises the symbolic cells
            conc = [int(c) for c in v]
            back = bp.int_to_bvector(iv, n)
            back2 = bp.ints_to_bvectors(bp.bvectors_to_ints([np.array(conc, dtype=np.uint8)]), n)[0]
            s_ = bp.bvector_to_pauli_string(np.array(conc, dtype=np.uint8))
            back3 = bp.pauli_string_to_bvector(s_)
            return iv, conc, [int(x) for x in back], [int(x) for x in back2], [int(x) for x in back3], \
                int(bp.bsf_wt(np.array(conc, dtype=np.uint8)))
        paths = eng.explore(fn)
    col.absorb(eng)
    bad = []
    for p in paths:
        if p.exc is not None:
            r, m, dt = col.solve(p.pc)
            col.record('C03/converters-large/no-exception', r, dt, True, None, f'{type(p.exc).__name__}: {p.exc}')
            continue
        iv, conc, b1, b2, b3, wt = p.value
        want_int = int(''.join(map(str, conc)), 2)
        want_wt = sum(1 for i in range(n) if conc[i] or conc[n + i])
        ok = int(iv) == want_int and b1 == conc and b2 == conc and b3 == conc and wt == want_wt
        bad.append(z3_and(p.pc + [z3.BoolVal(not ok)]))

    def wit(m):
        return dict(n=n, ones=[i for i in pos if z3.is_true(m.eval(V[i], model_completion=True))], large=True)
    col.prove('C03/converters-large/int-and-string-roundtrips', [], z3_or(bad), wit,
              f'n={n}: {len(paths)} realised vectors with bits at positions {pos}; integer value, int / ints / string '
              'round trips and weight')
    return col.result()


def w_brank(cfg, tier='quick'):
    """cfg = 'brank r=<rows> c=<cols>': rank of a symbolic matrix equals the GF(2) rank."""
    _install()
    import panqec.bpauli as bp
    parts = dict(p.split('=') for p in cfg.split()[1:])
    R, C = int(parts['r']), int(parts['c'])
    col = hz.Collector(cfg)
    col.encoded(bp.brank, bp.gf2_rank)
    M = [[z3.Bool(f'm_{i}_{j}') for j in range(C)] for i in range(R)]
    eng = Engine(name=cfg)
    with eng:
        def fn():
            a = as_sa(np.array([[Bit(x) for x in row] for row in M], dtype=object))
            rk = bp.brank(a)
            conc = [[int(c) for c in row] for row in a]
            return rk, conc
        paths = eng.explore(fn)
    col.absorb(eng)
    alts = []
    for p in paths:
        if p.exc is not None:
            col.record('C03/brank/no-exception', 'sat', 0, True, None, f'{type(p.exc).__name__}: {p.exc}')
            continue
        rk, conc = p.value
        rows = [sum(b << j for j, b in enumerate(r)) for r in conc]
        true_rank, _ = gf2.rank_and_kernel(rows, C)
        alts.append(z3_and(p.pc + [z3.BoolVal(int(rk) != true_rank)]))

    def wit(m):
        return dict(matrix=values(m, M))
    col.prove('C03/brank/equals-gf2-rank', [], z3_or(alts), wit)
    col.prove('C03/brank/paths-cover', [], z3.Not(z3_or([z3_and(p.pc) for p in paths])), wit)
    return col.result()


def w_dtype(cfg, tier='quick'):
    """Dense path accumulator lemma (QF_BV): numpy's fixed-width dot/add followed by % 2 gives the
    parity of the true overlap counts, for every count up to 1200 and every integer dtype width."""
    col = hz.Collector(cfg)
    import panqec.bpauli as bp
    col.encoded(bp.bs_prod)
    maxc = 1200
    for width, signed in [(8, False), (8, True), (16, False), (16, True), (32, True), (64, True), (64, False)]:
        c1, c2 = z3.BitVec('c1', 72), z3.BitVec('c2', 72)
        dom = [z3.ULE(c1, maxc), z3.ULE(c2, maxc)]
        w1, w2 = z3.Extract(width - 1, 0, c1), z3.Extract(width - 1, 0, c2)     # wrapped dot products
        s = w1 + w2                                                               # wrapped sum
        # numpy % 2 on (un)signed ints is the floor-mod: result in {0,1} = lowest bit
        got = z3.Extract(0, 0, s)
        want = z3.Extract(0, 0, c1 + c2)
        col.prove(f'C03/bs_prod/dense-accumulator-wrap-preserves-parity/{"int" if signed else "uint"}{width}',
                  dom, got != want, lambda m: dict(c1=m.eval(c1).as_long(), c2=m.eval(c2).as_long(),
                                                   width=width, signed=signed, lemma=True),
                  f'overlap counts up to {maxc}')
    # model validation against real numpy (translation validation of the lemma's semantics)
    rng = np.random.default_rng(int(cfg.split('=')[1]) if '=' in cfg else 0)
    mism = 0
    for dt in (np.uint8, np.int8, np.uint16, np.int64):
        for n in (300, 511, 600):
            a = np.ones((1, 2 * n), dtype=dt)
            b = np.ones((2, 2 * n), dtype=dt)
            b[1, rng.integers(0, 2 * n)] = 0
            got = bp.bs_prod(a, b)
            want = [(n + n) % 2, int((a[0, :n].astype(int) @ b[1, n:].astype(int)
                                      + a[0, n:].astype(int) @ b[1, :n].astype(int)) % 2)]
            if list(map(int, np.asarray(got).reshape(-1))) != want:
                mism += 1
    col.record('C03/bs_prod/dense-lemma-model-matches-numpy', 'unsat' if mism == 0 else 'sat', 0, True,
               dict(lemma_mismatches=mism) if mism else None,
               'concrete overlaps 300..1200 (> 255) through the real dense path, 4 dtypes')
    return col.result()


def w_linear(cfg, tier='quick'):
    """measure_syndrome is GF(2)-linear on the real H of a library code (two symbolic errors)."""
    _install()
    from panqec.codes import StabilizerCode
    code = common.make_code(cfg.split(' ', 1)[1])
    n = code.n
    col = hz.Collector(cfg)
    col.encoded(StabilizerCode.measure_syndrome)
    E1 = [z3.Bool(f'e_{i}') for i in range(2 * n)]
    E2 = [z3.Bool(f'f_{i}') for i in range(2 * n)]
    eng = Engine(name=cfg)
    with eng:
        def fn():
            e1, e2 = as_sa([Bit(b) for b in E1]), as_sa([Bit(b) for b in E2])
            es = (e1 + e2) % 2                        # the library's own way of adding errors
            return code.measure_syndrome(e1), code.measure_syndrome(e2), code.measure_syndrome(es)
        paths = eng.explore(fn)
    col.absorb(eng)
    alts = []
    for p in paths:
        if p.exc is not None:
            col.record('C03/measure_syndrome/no-exception', 'sat', 0, True, None, str(p.exc))
            continue
        s1, s2, ss = [list(np.asarray(x).reshape(-1)) for x in p.value]
        alts.append(z3_and(p.pc + [z3_or([z3_xor([bool_term(a), bool_term(b), bool_term(c)])
                                          for a, b, c in zip(s1, s2, ss)] +
                                         [z3.BoolVal(len(s1) != code.n_stabilizers)])]))

    def wit(m):
        g = lambda bs: [1 if z3.is_true(m.eval(b, model_completion=True)) else 0 for b in bs]
        return dict(e1=g(E1), e2=g(E2), code=cfg.split(' ', 1)[1])
    col.prove('C03/measure_syndrome/linear', [], z3_or(alts), wit, 's(e+f) = s(e)+s(f), all e,f')
    return col.result()


def worker(cfg, tier='quick'):
    kind = cfg.split()[0]
    return {'bs_prod': w_bs_prod, 'converters': w_converters, 'converters-large': w_converters_large, 'brank': w_brank, 'stacks': w_stacks,
            'dtype': w_dtype, 'linear': w_linear}[kind](cfg, tier)


def replay(path):
    import panqec.bpauli as bp
    import panqec.bsparse as bsp
    with open(path) as f:
        d = json.load(f)
    w, oid, cfg = d['witness'], d['oid'], d['config']
    bad = False
    try:
        if cfg.startswith('bs_prod'):
            n = w['n']

            def conc(x, kind):
                if kind == 'list':
                    return x
                a = np.array(x, dtype=np.uint8)
                return a if kind == 'sa' else bsp.from_array(a.reshape(1, -1) if a.ndim == 1 else a)
            A, B = np.array(w['a']).reshape(-1, 2 * n), np.array(w['b']).reshape(-1, 2 * n)
            A2 = np.array(w['a2']).reshape(-1, 2 * n)
            spec = (A[:, :n] @ B[:, n:].T + A[:, n:] @ B[:, :n].T) % 2
            f = lambda x, y, ky=w['b_kind']: np.asarray(bp.bs_prod(conc(x, w['a_kind']), conc(y, ky)))
            got = f(w['a'], w['b'])
            if 'cells' in oid:
                bad = got.reshape(spec.shape).tolist() != spec.tolist()
            elif 'shape' in oid:
                a1, b1 = np.ndim(w['a']) == 1, np.ndim(w['b']) == 1
                want = (len(B),) if a1 and not b1 else (len(A),) if b1 and not a1 else None
                bad = (want is not None and got.shape != want) or got.size != spec.size
            elif 'symmetric' in oid:
                ba = np.asarray(bp.bs_prod(conc(w['b'], w['b_kind']), conc(w['a'], w['a_kind'])))
                bad = got.reshape(spec.shape).tolist() != ba.reshape(spec.T.shape).T.tolist()
            elif 'zero' in oid:
                aa = np.asarray(bp.bs_prod(conc(w['a'], w['a_kind']), conc(w['a'], w['a_kind'])))
                bad = bool(np.any(np.diag(aa.reshape(len(A), len(A)))))
            elif 'bilinear' in oid:
                s = ((A + A2) % 2)
                s = s.tolist() if np.ndim(w['a']) == 2 else s[0].tolist()
                bad = (f(s, w['b']).reshape(-1) != (got.reshape(-1) + f(w['a2'], w['b']).reshape(-1)) % 2).any()
            elif 'no-exception' in oid:
                bad = False
        elif cfg.startswith('stacks'):
            n = w['n']
            conc = np.array(w['stack'], dtype=np.uint8)
            expect = [''.join(_LETTER[(int(row[i]), int(row[i + n]))] for i in range(n)) for row in conc]
            dense, sparse = list(bp.bsf_to_pauli(conc)), list(bp.bsf_to_pauli(bsp.from_array(conc)))
            print('stack', conc.tolist(), 'dense', dense, 'sparse', sparse, 'expected', expect)
            if 'roundtrip' in oid:
                bad = [np.asarray(bp.pauli_string_to_bvector(s_)).astype(int).tolist() for s_ in dense] != conc.tolist()
            else:
                bad = dense != expect or sparse != expect
        elif cfg.startswith('converters-large'):
            n = w['n']
            v = np.zeros(2 * n, dtype=np.uint8)
            v[w['ones']] = 1
            iv = bp.bvector_to_int(v)
            print('n', n, 'ones at', w['ones'], 'int', iv, 'expected', int(''.join(map(str, v)), 2))
            bad = int(iv) != int(''.join(map(str, v)), 2) or list(map(int, bp.int_to_bvector(iv, n))) != list(map(int, v))
        elif cfg.startswith('converters'):
            n = w['n']
            v = np.array(w['v'], dtype=np.uint8)
            expect = ''.join(_LETTER[(int(v[i]), int(v[i + n]))] for i in range(n))
            wt = sum(ch != 'I' for ch in expect)
            csr = bsp.from_array(v.reshape(1, -1))
            s1, s2 = bp.bvector_to_pauli_string(v), bp.bsf_to_pauli(v)
            s3 = bp.bsf_to_pauli(csr)[0]
            if 'strings-agree' in oid:
                bad = not (s1 == s2 == s3)
            elif 'letterwise' in oid:
                bad = s1 != expect
            elif 'string-roundtrip' in oid:
                bad = list(bp.pauli_string_to_bvector(s1)) != list(v) or list(bp.pauli_to_bsf(s1)) != list(v)
            elif 'int-roundtrip' in oid:
                bad = list(bp.int_to_bvector(bp.bvector_to_int(v), n)) != list(v)
            elif 'weight' in oid:
                ws = bp.bsf_wt(csr) if csr.nnz else 0
                bad = not (int(ws) == int(bp.bsf_wt(v)) == wt)
        elif cfg.startswith('brank'):
            M = np.array(w['matrix'], dtype=np.uint8)
            rows = [sum(int(b) << j for j, b in enumerate(r)) for r in M]
            bad = bp.brank(M) != gf2.rank_and_kernel(rows, M.shape[1])[0]
        elif cfg.startswith('dtype'):
            bad = True      # lemma / model mismatch: nothing further to replay
        elif cfg.startswith('linear'):
            code = common.make_code(w['code'])
            e1, e2 = np.array(w['e1'], dtype=np.uint8), np.array(w['e2'], dtype=np.uint8)
            bad = ((code.measure_syndrome(e1) + code.measure_syndrome(e2)) % 2).tolist() != \
                code.measure_syndrome((e1 + e2) % 2).tolist()
    except Exception as ex:
        print('exception on replay:', type(ex).__name__, ex)
        bad = True
    print('REPLAY', 'reproduced' if bad else 'not-reproduced', oid, cfg)
    return 0


def configs(tier):
    out = []
    ns = [1, 2, 3] if tier == 'quick' else [1, 2, 3, 4, 6, 8]
    shapes = [0, 1, 2] if tier == 'quick' else [0, 1, 2, 3]
    for n in ns:
        for (ra, rb) in itertools.product(shapes, repeat=2):
            for ka, kb in itertools.product(['list', 'sa', 'csr'], repeat=2):
                if n > 3 and (ka, kb) not in (('sa', 'sa'), ('csr', 'sa'), ('sa', 'csr'), ('csr', 'csr')):
                    continue
                out.append(f'bs_prod n={n} a={ra}:{ka} b={rb}:{kb}')
    for n in ([1, 2, 3] if tier == 'quick' else [1, 2, 3, 4, 5, 6]):
        out.append(f'converters n={n}')
    out += ['stacks n=1 rows=2', 'stacks n=2 rows=2', 'stacks n=1 rows=3'] + ([] if tier == 'quick' else ['stacks n=2 rows=3', 'stacks n=3 rows=2'])
    out += [f'converters-large n={n}' for n in ([16, 32, 33, 64, 70] if tier == 'quick' else [16, 31, 32, 33, 40, 63, 64, 65, 100, 300])]
    out += ['brank r=2 c=3', 'brank r=3 c=2'] + ([] if tier == 'quick' else ['brank r=3 c=3', 'brank r=2 c=5'])
    out.append('dtype seed=0')
    lin = ['Toric2DCode(2,3)', 'Planar2DCode(3,2)/XZZX/x', 'RotatedPlanar2DCode(3,3)/XY',
           'Toric3DCode(2,3,2)/XZZX/z', 'RotatedToric3DCode(3,2,2)', 'XCubeCode(2,2,2)',
           'Color666PlanarCode(2,2)', 'RhombicPlanarCode(2,3,2)/Checkerboard_XZZX']
    if tier != 'quick':
        lin = common.code_configs('quick', deformed=True, max_n=120)
    out += [f'linear {c}' for c in lin]
    return out


def main(argv=None):
    a = hz.std_args(argv)
    if a.replay:
        return replay(a.replay)
    t0 = time.time()
    cfgs = common.order(configs(a.tier), a.seed)
    if a.only:
        cfgs = [c for c in cfgs if a.only in c]
    res = hz.run_configs('checks.c03', 'worker', cfgs, dict(tier=a.tier), jobs=a.jobs)
    return hz.finish(
        PID, a.tier, a.seed, res, t0,
        assumptions=['integer dtypes modelled as mathematical integers in the symbolic runs; the '
                     'fixed-width wrap of the dense path is covered by the separate QF_BV lemma whose '
                     'numpy model is validated on concrete overlaps > 255',
                     'csr_matrix replaced by csr_shim (dense-backed for symbolic operands)'],
        bounds=dict(bs_prod='n <= 3 qubits, stacks of 1-D / 1 / 2 rows, 9 representation pairs (quick); '
                            'n <= 6, up to 3 rows (thorough)',
                    converters='every bvector with n <= 3 (quick) / n <= 5 (thorough), realised',
                    lemma='overlap counts <= 1200, widths 8..64'),
        stubs=['scipy.sparse.csr_matrix -> symx.csr_shim'],
        outside=['bool dtype inputs (numpy bool dot is OR/AND, not an integer dtype)',
                 'n > 6 for the symbolic representation matrix'])


if __name__ == '__main__':
    sys.exit(main())
