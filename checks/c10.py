"""C10 — sweep decoders track the true residual syndrome.

Real functions executed symbolically: SweepDecoder3D.flip_edge / sweep_move / get_initial_state /
get_default_direction and RotatedSweepDecoder3D.flip_edge / sweep_move / get_sweep_faces /
get_sweep_edges / get_default_direction, StabilizerCode.site, to_bsf — with a symbolic edge location
and a fully symbolic state array (geometry), and with a symbolic window of the automaton state, an
arbitrary prior correction on the candidate edges and a symbolic tie-break draw (step invariant)."""
import itertools
import json
import sys
import time

import numpy as np
import z3

from symx import Engine, as_sa, install, gf2
from symx import lattice as lt
from symx.core import z3_xor, z3_and, z3_or, bool_term, Bit, SymInt
from symx.stubs import SymRng
from symx import harness as hz
from checks import common

PID = 'C10'

DIRECTIONS = [(1, 0, 1), (1, 0, -1), (0, 1, 1), (0, 1, -1), (-1, 0, 1), (-1, 0, -1), (0, -1, 1), (0, -1, -1)]


def _install():
    import panqec.bpauli
    import panqec.bsparse
    import panqec.codes.base._stabilizer_code as sc
    import panqec.decoders.sweepmatch._sweep_decoder_3d as s3
    import panqec.decoders.sweepmatch._rotated_sweep_decoder as rs
    install(panqec.bpauli, panqec.bsparse, sc, s3, rs)
    return s3, rs


def make(cfg):
    s3, rs = _install()
    from panqec.error_models import PauliErrorModel
    kind, code_cfg = cfg.split(' ')[0], cfg.split(' ')[1]
    code = common.make_code(code_cfg)
    code.stabilizer_matrix, code.x_indices, code.z_indices, code.logicals_x
    Dec = s3.SweepDecoder3D if type(code).__name__ in ('Toric3DCode', 'Planar3DCode') else rs.RotatedSweepDecoder3D
    dec = Dec(code, PauliErrorModel(1 / 3, 1 / 3, 1 / 3), 0.1)
    return code, dec, Dec


def _isolated(Dec):
    """Classes / modules whose class-level (module-level) containers are reset between paths."""
    import sys as _sys
    out = [c for c in Dec.__mro__ if c is not object]
    out += [_sys.modules[c.__module__] for c in out if c.__module__ in _sys.modules]
    return out


def siblings(Dec, code):
    """The other code classes the decoder declares support for, at the same size (where that size is in
    the class's supported family)."""
    import panqec.codes as pc
    out = []
    for name in Dec.allowed_codes:
        if name != type(code).__name__ and hasattr(pc, name) and common.in_family(name, tuple(code.size)):
            out.append(getattr(pc, name)(*code.size))
    return out


def w_cross(cfg, tier):
    """cfg = 'cross <code>': decoders of the sibling code classes (same size) are USED first in the same
    process -- every edge flipped, one decode -- then a fresh decoder for <code> flips a solver-chosen
    (realised) edge on a solver-chosen (realised) single excited face: exactly the anticommuting faces
    toggle.  Real code, concrete values; the history of the process is the subject."""
    code, dec0, Dec = make(cfg)
    from panqec.error_models import PauliErrorModel
    em = PauliErrorModel(1 / 3, 1 / 3, 1 / 3)
    n, m = code.n, code.n_stabilizers
    col = hz.Collector(cfg)
    col.encoded(Dec.flip_edge, Dec.decode)
    used = []
    for c2 in siblings(Dec, code):
        d2 = Dec(c2, em, 0.1)
        for loc in c2.qubit_coordinates:
            try:
                d2.flip_edge(loc, np.zeros(c2.n_stabilizers, dtype=np.uint8))
            except Exception:       # noqa: the sibling's own defects are its own configuration's subject
                pass
        e2 = np.zeros(2 * c2.n, dtype=np.uint8)
        e2[c2.n] = 1
        try:
            d2.decode(c2.measure_syndrome(e2))
        except Exception:           # noqa
            pass
        used.append(type(c2).__name__)
    Hd = code.stabilizer_matrix.toarray()
    qc = list(code.qubit_coordinates)
    eng = Engine(name=cfg, max_paths=20000)
    with eng:
        qi = eng.integer('edge', 0, n - 1)
        fi = eng.integer('face', m - min(m, 6 if tier == 'quick' else 40), m)     # m = no excited face

        def fn():
            q, f = int(qi), int(fi)
            dec = Dec(code, em, 0.1)
            signs = np.zeros(m, dtype=np.uint8)
            if f < m:
                signs[f] = 1
            before = signs.copy()
            dec.flip_edge(qc[q], signs)
            return q, f, bool(((before ^ signs) != Hd[:, q]).any())
        ps = eng.explore(fn)
    col.absorb(eng)
    # same split as the geometry worker: "seam" edges have a neighbouring face coordinate outside the box
    allc = list(code.qubit_coordinates) + list(code.stabilizer_coordinates)
    lo = [min(c[d] for c in allc) for d in range(3)]
    hi = [max(c[d] for c in allc) for d in range(3)]
    is_seam = lambda q: any(qc[q][d] - 1 < lo[d] or qc[q][d] + 1 > hi[d] for d in range(2))
    for tag in ('interior', 'seam'):
        bad, w, cnt = [], [None], 0
        for p in ps:
            if p.exc is not None:
                if tag == 'interior':
                    bad.append(z3_and(p.pc))
                    w[0] = w[0] or dict(exception=f'{type(p.exc).__name__}: {p.exc}', cross=used)
                continue
            q, f, b = p.value
            if is_seam(q) != (tag == 'seam'):
                continue
            cnt += 1
            bad.append(z3_and(p.pc + [z3.BoolVal(b)]))
            if b and (w[0] is None or 'edge' not in w[0]):
                w[0] = dict(edge=list(qc[q]), face=f, cross=used)
        col.prove(f'C10/flip_edge/toggles-exactly-the-anticommuting-face-stabilizers/after-sibling-classes-were-used/{tag}',
                  eng.base, z3_or(bad), lambda mo, w=w: w[0],
                  f'{cnt} realised ({tag} edge, excited face) pairs; decoders for {used} at the same size were used '
                  f'first in the same process')
    return col.result()


def w_geometry(cfg, tier):
    code, dec, Dec = make(cfg)
    n = code.n
    m = code.n_stabilizers
    col = hz.Collector(cfg)
    col.encoded(Dec.flip_edge)
    H = code.stabilizer_matrix.tocsr()
    qc = list(code.qubit_coordinates)
    lt.symbolize(code)
    S = [z3.Bool(f's_{i}') for i in range(m)]
    eng = Engine(name=cfg, max_paths=3000, isolate=_isolated(Dec))
    with eng:
        edge = lt.sym_location(eng, 'q', qc, code.qubit_index)

        def fn():
            signs = as_sa([Bit(b) for b in S])
            dec.flip_edge(edge, signs)
            return list(signs)
        ps = eng.explore(fn)
    col.absorb(eng)
    ev = [c.t for c in edge]
    # translation validation: the symbolic run instantiated at every concrete edge and the all-zero state must
    # be what the real flip_edge of a fresh decoder on a fresh, unshadowed code does
    fcode = common.make_code(cfg.split(' ')[1])
    from panqec.error_models import PauliErrorModel as _PEM
    fdec = Dec(fcode, _PEM(1 / 3, 1 / 3, 1 / 3), 0.1)

    def real_flip(loc):
        st = np.zeros(m, dtype=np.uint8)
        fdec.flip_edge(loc, st)
        return [bool(x) for x in st]
    lt.validate_paths_at(col, cfg, ps, ev, qc, real_flip,
                         lambda v, sub: [bool(lt.concretise(bool_term(c), sub)) for c in v],
                         extra_sub=[(b, z3.BoolVal(False)) for b in S],
                         impure_oid='C10/flip_edge/is-a-function-of-the-edge-and-state')
    # specification: row i toggles iff stabilizer i has an X on the edge qubit (anticommutes with Z there)
    spec = []
    for i in range(m):
        qs = [qc[j] for j in H.indices[H.indptr[i]:H.indptr[i + 1]] if j < n]
        spec.append(z3_or([z3_and([ev[d] == q[d] for d in range(len(q))]) for q in qs]))

    def wit(mo):
        return dict(edge=[mo.eval(v, model_completion=True).as_long() for v in ev],
                    signs=[1 if z3.is_true(mo.eval(b, model_completion=True)) else 0 for b in S])
    bad = []
    for p in ps:
        if p.exc is not None:
            r, mo, dt = col.solve(eng.base + p.pc)
            col.record('C10/flip_edge/no-exception', r, dt, True, wit(mo) if mo else None,
                       f'{type(p.exc).__name__}: {p.exc}')
            continue
        after = p.value
        bad.append(z3_and(p.pc + [z3_or([z3.Xor(bool_term(after[i]), z3.Xor(S[i], spec[i])) for i in range(m)])]))
    # "seam": edges with a neighbouring face coordinate outside the coordinate box (periodic wrap-around
    # or open boundary); decided separately so that a finding about the seam never hides the interior
    lo = [min(c[d] for c in list(code.qubit_coordinates) + list(code.stabilizer_coordinates)) for d in range(3)]
    hi = [max(c[d] for c in list(code.qubit_coordinates) + list(code.stabilizer_coordinates)) for d in range(3)]
    seam = z3.Or([z3.Or(ev[d] - 1 < lo[d], ev[d] + 1 > hi[d]) for d in range(2)])
    for tag, cond in (('interior', z3.Not(seam)), ('seam', seam)):
        col.prove(f'C10/flip_edge/toggles-exactly-the-anticommuting-face-stabilizers/{tag}', eng.base + [cond],
                  z3_or(bad), wit,
                  f'{tag} edges (symbolic location) x all 2^{m} states: state\' = state xor (X-part column of H at the edge)')
    col.prove('C10/flip_edge/paths-cover', eng.base, z3.Not(z3_or([z3_and(p.pc) for p in ps])), wit)
    # the invariant is ESTABLISHED by get_initial_state: the tracked pattern at step 0 is the face (X-type)
    # part of the syndrome, every other entry 0, and the caller's array is left alone
    if not code.is_css:      # (odd-sided RotatedToric3DCode: no X-/Z-type row masks; its seam is the known finding)
        return col.result()
    eng0 = Engine(name=cfg + '#init', isolate=_isolated(Dec))
    with eng0:
        def fn0():
            syn = as_sa([Bit(b) for b in S])
            st = dec.get_initial_state(syn)
            return list(st), list(syn)
        ps0 = eng0.explore(fn0)
    col.absorb(eng0)
    xm = np.asarray(code.x_indices)
    bad0 = []
    for p in ps0:
        if p.exc is not None:
            bad0.append(z3_and(p.pc))
            continue
        st, syn = p.value
        d0 = [z3.BoolVal(len(st) != m)]
        for i in range(min(m, len(st))):
            want = S[i] if xm[i] else z3.BoolVal(False)
            d0.append(z3.Xor(bool_term(st[i]), want))
            d0.append(z3.Xor(bool_term(syn[i]), S[i]))
        bad0.append(z3_and(p.pc + [z3_or(d0)]))
    col.prove('C10/get_initial_state/is-the-face-part-of-the-syndrome', [], z3_or(bad0),
              lambda mo: dict(init=True, signs=[1 if z3.is_true(mo.eval(b, model_completion=True)) else 0 for b in S]),
              f'all 2^{m} syndromes: state[i] = syndrome[i] on face (X-type) stabilizers, 0 elsewhere; input untouched')
    return col.result()


def w_step(cfg, tier):
    """One sweep step from a symbolic window state and an arbitrary prior correction."""
    code, dec, Dec = make(cfg)
    rotated = Dec.__name__.startswith('Rotated')
    n, m = code.n, code.n_stabilizers
    col = hz.Collector(cfg)
    col.encoded(Dec.sweep_move, Dec.flip_edge, Dec.get_default_direction, type(code).site if hasattr(type(code), 'site') else Dec.sweep_move)
    if rotated:
        col.encoded(Dec.get_sweep_faces, Dec.get_sweep_edges)
    H = code.stabilizer_matrix.tocsr()
    Hd = H.toarray()
    sidx, qidx = dict(code.stabilizer_index), dict(code.qubit_index)
    xmask = np.asarray(code.x_indices)
    if rotated:
        vertices = [v for v in code.stabilizer_coordinates if code.stabilizer_type(v) == 'vertex']
    else:
        vertices = [tuple(int(c) for c in v) for v in np.array(code.stabilizer_coordinates)[code.z_indices]]
    dirs = DIRECTIONS if rotated else [None]
    if tier == 'quick' and rotated:
        dirs = [DIRECTIONS[0], DIRECTIONS[3], DIRECTIONS[5], DIRECTIONS[6]]
    L = code.size
    limits = tuple(2 * x for x in L)
    n_win = 0
    bads = []
    allc = list(code.qubit_coordinates) + list(code.stabilizer_coordinates)
    box_lo = [min(c[dd] for c in allc) for dd in range(3)]
    box_hi = [max(c[dd] for c in allc) for dd in range(3)]

    def window(v, d):
        """faces / edges the rule at vertex v looks at (computed with the decoder's own helpers for the
        rotated decoder, with the documented neighbourhood for the cubic one)."""
        if rotated:
            faces = dec.get_sweep_faces(v, d)
            edges = dec.get_sweep_edges(v, d)
        else:
            x, y, z = v
            faces = [tuple(np.mod(f, limits)) for f in ((x, y + 1, z + 1), (x + 1, y, z + 1), (x + 1, y + 1, z))]
            edges = [tuple(np.mod(e, limits)) for e in ((x + 1, y, z), (x, y + 1, z), (x, y, z + 1))]
        faces = [tuple(int(c) for c in f) for f in faces]
        edges = [tuple(int(c) for c in e) for e in edges]
        return faces, edges

    # windows: every single vertex (with an arbitrary prior correction on its candidate edges) and every PAIR
    # of vertices whose candidate edges border a common face (two rules firing in the same step toggle that
    # face twice); pairs start from an empty prior correction
    face_of_edge = {e: set(np.nonzero(Hd[:, qidx[e]])[0].tolist()) for e in qidx}
    for d in dirs:
        singles = [(v,) for v in vertices]
        pairs = []
        if cfg.split(' ')[0] == 'step2':
            singles = []
            for i1, v1 in enumerate(vertices):
                e1 = [e for e in window(v1, d)[1] if e in qidx]
                for v2 in vertices[i1 + 1:]:
                    e2 = [e for e in window(v2, d)[1] if e in qidx]
                    if any(a_ != b_ and face_of_edge[a_] & face_of_edge[b_] for a_ in e1 for b_ in e2):
                        pairs.append((v1, v2))
        for vs in singles + pairs:
            v = vs[0] if len(vs) == 1 else vs
            faces, edges = [], []
            for v_ in vs:
                f_, e_ = window(v_, d)
                faces += [x for x in f_ if x not in faces]
                edges += [x for x in e_ if x not in edges]
            fidx = [sidx[f] for f in faces if f in sidx]
            eok = [e for e in edges if e in qidx]
            if len(vs) == 2:
                eok_prior = []
            else:
                eok_prior = eok
            is_seam = any(e[dd] - 1 < box_lo[dd] or e[dd] + 1 > box_hi[dd] for e in edges for dd in range(2)) or \
                any(f[dd] < box_lo[dd] or f[dd] > box_hi[dd] for f in faces for dd in range(2))
            if not fidx:
                continue
            n_win += 1
            SB = {i: z3.Bool(f'w_{i}') for i in fidx}
            CB = {e: z3.Bool('c_' + '_'.join(map(str, e))) for e in eok_prior}
            eng = Engine(name=cfg, max_paths=2000, isolate=_isolated(Dec))
            with eng:
                def fn():
                    dec._rng = SymRng('tie')
                    signs = as_sa([Bit(SB[i]) if i in SB else 0 for i in range(m)])
                    corr = {}
                    for e in eok_prior:                 # arbitrary prior correction on the candidate edges
                        if bool(Bit(CB[e])):
                            corr[e] = 'Z'
                    before = dict(corr)
                    new = dec.sweep_move(signs, corr, d) if rotated else dec.sweep_move(signs, corr)
                    return list(signs), list(new), before, dict(corr)
                ps = eng.explore(fn)
            col.absorb(eng)
            for p in ps:
                if p.exc is not None:
                    r, mo, dt = col.solve(p.pc)
                    col.record('C10/sweep_move/no-exception', r, dt, True,
                               dict(vertex=list(v), direction=list(d) if d else None,
                                    signs={str(i): (1 if mo is not None and z3.is_true(mo.eval(b, model_completion=True)) else 0)
                                           for i, b in SB.items()},
                                    prior=[list(e) for e in eok_prior if mo is not None and
                                           z3.is_true(mo.eval(CB[e], model_completion=True))]) if mo else None,
                               f'{type(p.exc).__name__}: {p.exc}')
                    continue
                old, new, cb, ca = p.value
                z_only = all(x == 'Z' for x in ca.values())
                # change of the correction as a BSF vector (concrete per path), its face syndrome
                delta = np.zeros(2 * n, dtype=int)
                for e in set(cb) | set(ca):
                    if (e in cb) != (e in ca) or cb.get(e) != ca.get(e):
                        if e not in qidx:
                            z_only = False
                            continue
                        delta[n + qidx[e]] ^= 1 if ('Z' in (cb.get(e, ''), ca.get(e, ''))) else 0
                syn = (Hd[:, :n] @ delta[n:]) % 2          # X-type (face) stabilizers vs Z flips
                diffs = [z3.BoolVal(not z_only)]
                for i in range(m):
                    want = bool(syn[i]) if xmask[i] else False
                    diffs.append(z3.Xor(z3.Xor(bool_term(old[i]), bool_term(new[i])), z3.BoolVal(want)))
                bads.append((z3_and(p.pc + [z3_or(diffs)]), v, d, SB, CB, eok_prior, is_seam))
    found = {'interior': 0, 'seam': 0}
    for t, v, d, SB, CB, eok, is_seam in bads:
        tag = 'seam' if is_seam else 'interior'
        oid = f'C10/sweep_move/state-change-equals-face-syndrome-of-correction-change/{tag}'
        ts = z3.simplify(t)
        if z3.is_false(ts):
            continue
        r, mo, dt = col.solve([t])
        if r == 'sat':
            found[tag] += 1
            if found[tag] <= 3:
                col.record(oid, 'sat', dt, True,
                           dict(vertex=list(v), direction=list(d) if d else None,
                                signs={str(i): (1 if z3.is_true(mo.eval(b, model_completion=True)) else 0)
                                       for i, b in SB.items()},
                                prior=[list(e) for e in eok if z3.is_true(mo.eval(CB[e], model_completion=True))]),
                           'an edge flipped by the step toggles the tracked excitations but not the correction '
                           '(or vice versa)')
        elif r == 'unknown':
            col.record(oid, 'unknown', dt, True)
    for tag in ('interior', 'seam'):
        if not found[tag]:
            k_ = sum(1 for b_ in bads if b_[6] == (tag == 'seam'))
            col.record(f'C10/sweep_move/state-change-equals-face-syndrome-of-correction-change/{tag}', 'unsat', 0,
                       True, None,
                       f'{tag} windows (vertex x direction) x all window states x all prior corrections on the '
                       f'candidate edges x all tie-break draws: signs\' xor signs == H_face.(bsf(corr\') xor '
                       f'bsf(corr)); correction stays Z-only ({k_} path formulas, all reduced to false or unsat)')
    return col.result()


def w_loop(cfg, tier):
    """The outer loop of decode(): with the step (sweep_move) replaced by a scripted stub that flips
    solver-chosen edges into whatever correction dict it is handed (through the real StabilizerCode.site)
    and decides symbolically whether excitations remain, the returned correction must be the Pauli product
    of ALL flips of ALL steps: an edge flipped an even number of times is absent, across sweeps, directions
    and rounds.  (The steps themselves are decided by the window invariant above.)"""
    code, dec, Dec = make(cfg)
    n, m = code.n, code.n_stabilizers
    col = hz.Collector(cfg)
    col.encoded(Dec.decode, Dec.get_initial_state)
    qc = list(code.qubit_coordinates)
    edges = [qc[0], qc[len(qc) // 2]]
    rotated = Dec.__name__.startswith('Rotated')
    # step indices at which the scripted step may flip an edge: the first two steps, the first step of the
    # second sweep direction and the first step of the second round (loop bounds as decode() computes them);
    # excitations remain (concretely) until the last of these steps, so every loop level is entered
    if rotated:
        S = 4 * (2 * int(max(code.size)) + 2)
        K = [0, 1, S, 8 * S]
    else:
        K = [0, 1, 2]
    max_calls = len(K)
    eng = Engine(name=cfg, max_paths=6000, isolate=_isolated(Dec))
    with eng:
        def fn():
            calls = []
            count = [0]

            def stub_move(signs, correction, *direction):
                i = count[0]
                count[0] += 1
                out = np.zeros(m, dtype=np.uint8)
                if i in K:
                    which = eng.integer(eng.path_name('flip'), 0, len(edges))      # len(edges) = no flip
                    eng.assume((which >= 0) & (which <= len(edges)))
                    w_ = int(which)
                    if w_ < len(edges):
                        code.site(correction, 'Z', edges[w_])
                    calls.append(w_)
                if i < K[-1]:
                    out[0] = 1                      # excitations remain: keep sweeping
                return out
            dec.sweep_move = stub_move
            if hasattr(dec, 'max_rounds'):
                dec.max_rounds = 3
            s0 = np.zeros(m, dtype=np.uint8)
            s0[int(np.flatnonzero(np.asarray(code.x_indices))[0])] = 1        # one face excitation to start
            c = dec.decode(s0)
            return [int(x) for x in np.asarray(c)], list(calls)
        ps = eng.explore(fn)
    col.absorb(eng)
    bad = []
    w = [None]
    for p in ps:
        if p.exc is not None:
            bad.append(z3_and(p.pc))
            if w[0] is None:
                w[0] = dict(loop='exception', error=f'{type(p.exc).__name__}: {p.exc}')
            continue
        c, calls = p.value
        want = np.zeros(2 * n, dtype=int)
        for w_ in calls:
            if w_ < len(edges):
                want[n + code.qubit_index[edges[w_]]] ^= 1
        ok = c == want.tolist()
        bad.append(z3_and(p.pc + [z3.BoolVal(not ok)]))
        if not ok and w[0] is None:
            w[0] = dict(flips=[list(edges[x]) if x < len(edges) else None for x in calls], got_weight=int(sum(c)))
    col.prove('C10/decode-loop/correction-is-the-product-of-all-step-flips', eng.base, z3_or(bad), lambda mo: w[0],
              f'{len(ps)} scripted step sequences: at step indices {K} (first steps, first step of the next direction, first '
              f'step of the next round) the step flips one of {len(edges)} edges or none (solver-chosen): an edge flipped '
              'twice is removed, whatever sweep / direction / round the flips fall in')
    return col.result()


def worker(cfg, tier='quick'):
    return {'geometry': w_geometry, 'step': w_step, 'step2': w_step, 'loop': w_loop, 'cross': w_cross}[cfg.split()[0]](cfg, tier)


def replay(path):
    with open(path) as f:
        d = json.load(f)
    w, oid, cfg = d['witness'], d['oid'], d['config']
    if isinstance(w, dict) and w.get('impure'):
        # the real function returned two different values for the same argument: re-run the worker in this fresh
        # interpreter; the obligation must be reported again
        res = worker(cfg)
        bad = any(o['oid'] == oid and o['verdict'] == 'sat' for o in res['obs'])
        print('impure function at', w.get('location'))
        print('REPLAY', 'reproduced' if bad else 'not-reproduced', oid, cfg)
        return 0
    from panqec.error_models import PauliErrorModel
    import panqec.decoders.sweepmatch._sweep_decoder_3d as s3
    import panqec.decoders.sweepmatch._rotated_sweep_decoder as rs
    code = common.make_code(cfg.split(' ')[1])
    Dec = s3.SweepDecoder3D if type(code).__name__ in ('Toric3DCode', 'Planar3DCode') else rs.RotatedSweepDecoder3D
    dec = Dec(code, PauliErrorModel(1 / 3, 1 / 3, 1 / 3), 0.1)
    n, m = code.n, code.n_stabilizers
    Hd = code.stabilizer_matrix.toarray()
    bad = False
    if cfg.startswith('cross'):
        em = PauliErrorModel(1 / 3, 1 / 3, 1 / 3)
        for c2 in siblings(Dec, code):
            d2 = Dec(c2, em, 0.1)
            for loc in c2.qubit_coordinates:
                try:
                    d2.flip_edge(loc, np.zeros(c2.n_stabilizers, dtype=np.uint8))
                except Exception:       # noqa
                    pass
        if 'edge' in w:
            dec = Dec(code, em, 0.1)
            signs = np.zeros(m, dtype=np.uint8)
            if w['face'] < m:
                signs[w['face']] = 1
            before = signs.copy()
            try:
                dec.flip_edge(tuple(w['edge']), signs)
                bad = bool(((before ^ signs) != Hd[:, code.qubit_index[tuple(w['edge'])]]).any())
            except Exception as ex:
                print('exception on replay:', type(ex).__name__, ex)
                bad = True
        else:
            res = w_cross(cfg, 'quick')
            bad = any(o['oid'] == oid and o['verdict'] == 'sat' for o in res['obs'])
        print('siblings used first:', w.get('cross'), 'edge', w.get('edge'), 'excited face', w.get('face'))
        print('REPLAY', 'reproduced' if bad else 'not-reproduced', oid, cfg)
        return 0
    if cfg.startswith('loop'):
        res = w_loop(cfg, 'quick')
        bad = any(o['oid'] == oid and o['verdict'] == 'sat' for o in res['obs'])
        print('scripted flips', w)
        print('REPLAY', 'reproduced' if bad else 'not-reproduced', oid, cfg)
        return 0
    try:
        if cfg.startswith('geometry') and w.get('init'):
            syn = np.array(w['signs'], dtype=np.uint8)
            keep = syn.copy()
            st = np.asarray(dec.get_initial_state(syn))
            want = np.where(np.asarray(code.x_indices), keep, 0)
            print('syndrome', keep.tolist(), 'initial state', st.tolist(), 'face part', want.tolist())
            bad = st.shape != want.shape or bool((st != want).any()) or bool((syn != keep).any())
        elif cfg.startswith('geometry'):
            edge = tuple(w['edge'])
            if edge in code.qubit_index:
                signs = np.array(w['signs'], dtype=np.uint8)
                before = signs.copy()
                dec.flip_edge(edge, signs)
                col_ = Hd[:, code.qubit_index[edge]]
                bad = ((before ^ signs) != col_).any()
        else:
            signs = np.zeros(m, dtype=np.uint8)
            for i, b in w['signs'].items():
                signs[int(i)] = b
            corr = {tuple(e): 'Z' for e in w['prior']}
            before = dict(corr)
            old = signs.copy()
            dirn = tuple(w['direction']) if w.get('direction') else None
            # every tie-break outcome of the real generator is tried (the model's draw is one of them)
            for seed in range(40):
                dec._rng = np.random.default_rng(seed)
                c2 = dict(before)
                new = dec.sweep_move(old.copy(), c2, dirn) if dirn else dec.sweep_move(old.copy(), c2)
                delta = np.zeros(n, dtype=int)
                for e in set(before) | set(c2):
                    if (e in before) != (e in c2):
                        delta[code.qubit_index[e]] ^= 1
                syn = (Hd[:, :n] @ delta) % 2
                syn = np.where(np.asarray(code.x_indices), syn, 0)
                if ((old ^ np.asarray(new)) != syn).any() or any(x != 'Z' for x in c2.values()):
                    bad = True
    except Exception as ex:
        print('exception on replay:', type(ex).__name__, ex)
        bad = True
    print('REPLAY', 'reproduced' if bad else 'not-reproduced', oid, cfg)
    return 0


def configs(tier):
    if tier == 'quick':
        cubic = ['Toric3DCode(2,2,2)', 'Toric3DCode(2,3,4)', 'Planar3DCode(2,2,2)', 'Planar3DCode(3,2,3)']
        rot = ['RotatedPlanar3DCode(3,3,3)', 'RotatedPlanar3DCode(3,4,3)', 'RotatedToric3DCode(2,2,2)', 'RotatedToric3DCode(3,4,2)']
    else:
        cubic = ['Toric3DCode(2,2,2)', 'Toric3DCode(2,3,4)', 'Toric3DCode(3,3,3)', 'Toric3DCode(4,3,2)',
                 'Planar3DCode(2,2,2)', 'Planar3DCode(3,2,3)', 'Planar3DCode(3,3,3)', 'Planar3DCode(2,4,3)']
        rot = ['RotatedPlanar3DCode(3,3,3)', 'RotatedPlanar3DCode(3,4,3)', 'RotatedPlanar3DCode(4,4,3)',
               'RotatedPlanar3DCode(2,3,2)', 'RotatedToric3DCode(2,2,2)', 'RotatedToric3DCode(3,4,2)',
               'RotatedToric3DCode(4,4,3)', 'RotatedToric3DCode(2,3,3)', 'RotatedPlanar3DCode(5,5,3)', 'RotatedPlanar3DCode(4,5,4)']
        cubic += ['Toric3DCode(4,4,4)', 'Toric3DCode(3,5,2)', 'Planar3DCode(4,4,4)', 'Planar3DCode(4,2,5)']
    out = []
    for c in cubic + rot:
        out.append(f'geometry {c}')
        out.append(f'step {c}')
    two = ['RotatedPlanar3DCode(3,3,3)', 'RotatedPlanar3DCode(2,2,2)', 'Toric3DCode(2,2,2)', 'Planar3DCode(2,2,2)',
           'RotatedToric3DCode(2,2,2)']
    if tier != 'quick':
        two += ['RotatedPlanar3DCode(3,4,3)', 'RotatedPlanar3DCode(4,4,3)', 'Toric3DCode(2,3,4)', 'Planar3DCode(3,2,3)',
                'Toric3DCode(3,3,3)', 'RotatedToric3DCode(3,4,2)']
    out += [f'step2 {c}' for c in two]
    out += [f'cross {c}' for c in (cubic + rot)[:(8 if tier == 'quick' else 100)]]
    out += ['loop Toric3DCode(2,2,2)', 'loop Planar3DCode(2,2,2)', 'loop RotatedPlanar3DCode(2,2,2)',
            'loop RotatedToric3DCode(2,2,2)']
    return out


def main(argv=None):
    a = hz.std_args(argv)
    if a.replay:
        return replay(a.replay)
    t0 = time.time()
    cfgs = common.order(configs(a.tier), a.seed)
    if a.only:
        cfgs = [c for c in cfgs if a.only in c]
    res = hz.run_configs('checks.c10', 'worker', cfgs, dict(tier=a.tier), jobs=a.jobs)
    return hz.finish(
        PID, a.tier, a.seed, res, t0,
        assumptions=['one inductive step from an arbitrary window state covers automaton runs of any length (the '
                     'invariant "tracked state == face syndrome of error+correction" is preserved by every step and '
                     'established by get_initial_state)',
                     'the tie-break generator returns an arbitrary element of [0,1,2] with numpy\'s return type',
                     'window: the three sweep faces of ONE vertex are symbolic, every other face is 0, so only that '
                     'vertex\'s rule fires; all vertices x (rotated) sweep directions are enumerated'],
        bounds=dict(geometry='symbolic edge location, all 2^m states', step='per vertex window: 2^3 states x 2^3 prior '
                    'corrections x 3 tie-breaks', step2='per pair of vertices whose candidate edges border a common face: '
                    '2^(<=6) states x tie-breaks of both, empty prior correction', configurations=len(cfgs)),
        stubs=['numpy Generator -> SymRng (tie-break)', 'index tables -> SymDict (geometry part)'],
        outside=['termination / success of the automaton (whether it removes all excitations)', 'interaction of three '
                 'or more vertices firing in the same step beyond what the single-vertex and vertex-pair windows cover',
                 'lattice sizes beyond the list'])


if __name__ == '__main__':
    sys.exit(main())
