"""Configurations (the enumerated *bounds*): code classes, supported size families, deformations.
See DESIGN.md section 2."""
from __future__ import annotations

import itertools
import re
from typing import List, Optional, Tuple

import numpy as np

import panqec.codes as pc

CLASSES = ['Toric2DCode', 'Planar2DCode', 'RotatedPlanar2DCode', 'Color666PlanarCode',
           'Color666ToricCode', 'Color488Code', 'Color3DCode', 'Toric3DCode', 'Planar3DCode',
           'RotatedPlanar3DCode', 'RotatedToric3DCode', 'RhombicToricCode', 'RhombicPlanarCode',
           'XCubeCode', 'HollowPlanar3DCode', 'HollowRhombicCode']

AXES = {
    'Toric2DCode': ['x', 'y'], 'Planar2DCode': ['x', 'y'], 'RotatedPlanar2DCode': ['x', 'y'],
    'Toric3DCode': ['x', 'y', 'z'], 'Planar3DCode': ['x', 'y', 'z'],
    'RotatedPlanar3DCode': ['x', 'y', 'z'], 'RotatedToric3DCode': ['x', 'y', 'z'],
    'XCubeCode': ['x', 'y', 'z'],
}


def in_family(cls: str, size: Tuple[int, ...]) -> bool:
    """Supported lattice family of each class (DESIGN.md section 2)."""
    if min(size) < 2:
        return False
    if cls in ('RhombicToricCode', 'Color3DCode'):
        return all(s % 2 == 0 for s in size)
    if cls == 'RotatedToric3DCode':
        return not (size[0] % 2 == 1 and size[1] % 2 == 1)
    if cls == 'HollowRhombicCode':
        return size[2] >= 3
    return True


# sizes that the constructors document as supported (independent L_y) but that are broken on the
# pinned tree: listed in known_findings.json, exercised by C01 only
RECTANGULAR_DEFECT = ('Color488Code', 'Color666ToricCode')


def sizes(cls: str, tier: str) -> List[Tuple[int, ...]]:
    dim = getattr(pc, cls).dimension
    if tier == 'quick':
        # (3-D: also a difference of 2 between each pair of sides where n stays below ~50, and for the hollow
        # classes sizes whose hole is non-trivial)
        # every class: a non-square / non-cubic size for each ordering of the sides the constructors
        # distinguish (L_y > L_x, L_x > L_y, and for 3-D also L_z > L_x and L_z < L_x), one with a side
        # difference of 2 where it is cheap, and both parities
        table = {
            'Toric2DCode': [(2, 2), (2, 3), (3, 2), (3, 4), (2, 4), (4, 2)],
            'Planar2DCode': [(2, 2), (2, 3), (3, 2), (4, 3), (2, 4)],
            'RotatedPlanar2DCode': [(2, 2), (2, 3), (3, 2), (3, 3), (4, 3), (2, 4), (3, 5), (4, 2)],
            'Color666PlanarCode': [(2, 2), (3, 3)],
            'Color666ToricCode': [(2, 2)],
            'Color488Code': [(2, 2), (3, 3), (2, 3), (3, 2)],
            'Color3DCode': [(2, 2, 2)],
            'Toric3DCode': [(2, 2, 2), (2, 3, 2), (3, 2, 4), (2, 2, 3), (3, 2, 2), (2, 4, 2)],
            'Planar3DCode': [(2, 2, 2), (2, 3, 2), (3, 2, 3), (2, 2, 3), (3, 2, 2), (2, 4, 2), (4, 2, 2), (2, 2, 4)],
            'RotatedPlanar3DCode': [(2, 2, 2), (2, 3, 2), (3, 3, 2), (3, 4, 3), (2, 2, 3), (3, 2, 2), (2, 4, 2), (4, 2, 2), (2, 2, 4)],
            'RotatedToric3DCode': [(2, 2, 2), (3, 2, 2), (2, 3, 2), (3, 4, 2), (2, 2, 3), (2, 4, 2), (4, 2, 2), (2, 2, 4)],
            'RhombicToricCode': [(2, 2, 2), (2, 4, 2), (4, 2, 2), (2, 2, 4)],
            'RhombicPlanarCode': [(2, 2, 2), (2, 3, 2), (3, 2, 3), (2, 2, 3), (3, 2, 2), (2, 4, 2), (4, 2, 2), (2, 2, 4)],
            'XCubeCode': [(2, 2, 2), (2, 3, 2), (3, 2, 2), (2, 2, 3), (2, 4, 2)],
            'HollowPlanar3DCode': [(2, 2, 2), (2, 3, 2), (3, 3, 3), (2, 2, 3), (3, 2, 2), (2, 4, 2), (2, 2, 4), (4, 3, 2), (4, 2, 3)],
            'HollowRhombicCode': [(2, 2, 3), (2, 3, 3), (3, 2, 4), (3, 2, 3), (2, 2, 4), (4, 2, 3), (4, 3, 3)],
        }
        return [s for s in table[cls] if in_family(cls, s)]
    hi = 6 if dim == 2 else 4
    out = []
    for s in itertools.product(range(2, hi + 1), repeat=dim):
        if not in_family(cls, s):
            continue
        if cls in RECTANGULAR_DEFECT and s[0] != s[1]:
            continue
        if cls == 'Color666ToricCode' and s[0] > 2:      # (3,3): pair queries exceed 240 s (n=162)
            continue
        if cls == 'Color488Code' and s[0] > 4:
            continue
        out.append(s)
    return out


def deformations(cls: str) -> List[Tuple[Optional[str], Optional[str]]]:
    """(name, axis) pairs offered by a class; (None, None) is the undeformed code."""
    out: List[Tuple[Optional[str], Optional[str]]] = [(None, None)]
    for name in getattr(pc, cls).deformation_names:
        if name == 'XZZX' and cls in AXES:
            for ax in AXES[cls]:
                out.append((name, ax))
        else:
            out.append((name, None))
    return out


def cfg_name(cls, size, name=None, axis=None) -> str:
    s = f'{cls}({",".join(map(str, size))})'
    if name:
        s += '/' + name.replace(' ', '_')       # configuration strings contain no spaces
        if axis:
            s += f'/{axis}'
    return s


def parse_cfg(cfg: str):
    m = re.match(r'^(\w+)\(([\d,]+)\)(?:/([^/]+))?(?:/(\w))?$', cfg)
    if not m:
        raise ValueError(cfg)
    name = m.group(3).replace('_', ' ') if m.group(3) else None
    return m.group(1), tuple(int(x) for x in m.group(2).split(',')), name, m.group(4)


def make_code(cfg: str):
    cls, size, name, axis = parse_cfg(cfg)
    code = getattr(pc, cls)(*size)
    if name:
        kw = {'deformation_axis': axis} if axis else {}
        code.deform(name, **kw)
    try:
        from symx.core import isolate_classes_of
        isolate_classes_of(code)      # class-/module-level containers are reset between symbolic paths
    except Exception:                 # noqa: replays run without the engine
        pass
    return code


def code_configs(tier: str, deformed=True, max_n=None, classes=None) -> List[str]:
    out = []
    for cls in (classes or CLASSES):
        for s in sizes(cls, tier):
            if max_n is not None:
                n = len(getattr(pc, cls)(*s).qubit_coordinates)
                if n > max_n:
                    continue
            for name, axis in (deformations(cls) if deformed else [(None, None)]):
                out.append(cfg_name(cls, s, name, axis))
    return out


def order(configs: List[str], seed: int) -> List[str]:
    rng = np.random.default_rng(seed)
    idx = rng.permutation(len(configs))
    return [configs[i] for i in idx]
