"""C18 — error probabilities multiply per qubit and normalise.

Real function executed symbolically: BaseErrorModel.error_probability (both log_output values) on a
fully symbolic error, with probability_distribution replaced by a stub returning ARBITRARY per-qubit
distributions (q_I, q_X, q_Y, q_Z >= 0, sum 1) — its real implementation is C07's / C08's subject.
Cells are read at the np.prod / np.sum(np.log(.)) observation point (linearity discipline)."""
import json
import sys
import time
from fractions import Fraction

import numpy as np
import z3

from symx import Engine, as_sa, install, NP
from symx.core import z3_and, z3_or, bool_term, Bit, SymReal, term_of, model_frac
from symx import harness as hz
from checks import common

PID = 'C18'


def _install():
    import panqec.error_models._base_error_model as bem
    install(bem)


def worker(cfg, tier='quick'):
    if cfg.startswith('metropolis'):
        return w_metropolis(cfg, tier)
    if cfg.startswith('fp '):
        return w_fp(cfg, tier)
    if cfg.startswith('tables '):
        return w_tables(cfg, tier)
    _install()
    from panqec.error_models import PauliErrorModel, BaseErrorModel
    col = hz.Collector(cfg)
    code = common.make_code(cfg)
    n = code.n
    col.encoded(BaseErrorModel.error_probability)
    E = [z3.Bool(f'e_{i}') for i in range(2 * n)]
    Q = {s: [z3.Real(f'q{s}_{i}') for i in range(n)] for s in 'IXYZ'}
    base = []
    for i in range(n):
        base += [Q[s][i] >= 0 for s in 'IXYZ']
        base.append(Q['I'][i] + Q['X'][i] + Q['Y'][i] + Q['Z'][i] == 1)
    calls = []

    class Model(PauliErrorModel):
        """probability_distribution hands out the SAME arrays on every call, as the real (lru_cached) one
        does: a caller that writes into them alters what every later reader gets."""
        tables = None

        def probability_distribution(self, code_, error_rate):
            calls.append((code_, error_rate))
            if self.tables is None:
                self.tables = tuple(as_sa([SymReal(t) for t in Q[s]]) for s in 'IXYZ')
            return self.tables

    def wit(m):
        return dict(error=[1 if z3.is_true(m.eval(b, model_completion=True)) else 0 for b in E],
                    q={s: [str(model_frac(m, t)) for t in Q[s]] for s in 'IXYZ'})

    for log_output, hist in ((False, False), (True, False), (False, True)):
        # hist: the matching weights were computed first on the same model / code / rate (a MatchingDecoder was
        # built, as in a splitting simulation): error_probability must still use the stated channel
        tag = ('log' if log_output else 'prod') + ('-after-get_weights' if hist else '')
        eng = Engine(name=f'{cfg}#{tag}')
        with eng:
            def fn():
                del calls[:]
                del NP.observed[:]
                model = Model(1 / 3, 1 / 3, 1 / 3)
                if hist:
                    BaseErrorModel.get_weights(model, code, 0.1)
                    del calls[:]
                    del NP.observed[:]
                e = as_sa([Bit(b) for b in E])
                r = BaseErrorModel.error_probability(model, e, code, 0.1, log_output=log_output)
                after = [[term_of(c, 'real') for c in t.cells()] for t in model.tables] if model.tables else None
                return r, list(NP.observed), list(calls), after
            ps = eng.explore(fn)
        col.absorb(eng)
        bad_cells, bad_struct, bad_tables = [], [], []
        for p in ps:
            if p.exc is not None:
                r_, m_, dt_ = col.solve(base + p.pc)
                col.record('C18/no-exception', r_, dt_, True, wit(m_) if m_ is not None else None,
                           f'{type(p.exc).__name__}: {p.exc}')
                continue
            r, obs, cl, after = p.value
            altered = z3.BoolVal(True) if after is None else \
                z3_or([a != q_ for row, s_ in zip(after, 'IXYZ') for a, q_ in zip(row, Q[s_])])
            bad_tables.append(z3_and(p.pc + [altered]))
            want_kind = 'sum' if log_output else 'prod'
            red = [a for k, a in obs if k == want_kind]
            log_of_product = False
            if log_output and not red:
                # ln(prod of the factors): equal to the sum of logs over the reals (this model); where the two
                # differ -- underflow of the product in double precision -- is the subject of C18/fp/*
                red = [a for k, a in obs if k == 'prod']
                rt = term_of(r, 'real') if isinstance(r, SymReal) else None
                if len(red) == 1 and rt is not None and z3.is_app(rt) and rt.decl().name() == 'ln':
                    pt = term_of(np.multiply.reduce(np.asarray(red[0]).view(np.ndarray).reshape(-1)), 'real')
                    log_of_product = z3.is_true(z3.simplify(rt.arg(0) == pt))
                if not log_of_product:
                    red = []
            ok_struct = len(red) == 1 and np.asarray(red[0]).shape == (n,) and len(cl) == 1 \
                and cl[0][0] is code and cl[0][1] == 0.1
            bad_struct.append(z3_and(p.pc + [z3.BoolVal(not ok_struct)]))
            if not ok_struct:
                continue
            cells = list(np.asarray(red[0]).reshape(-1))
            diffs = []
            for i in range(n):
                x, z = E[i], E[n + i]
                spec = z3.If(x, z3.If(z, Q['Y'][i], Q['X'][i]), z3.If(z, Q['Z'][i], Q['I'][i]))
                if log_output and not log_of_product:
                    from symx.core import uf
                    spec = uf('ln')(spec)
                    # ln is uninterpreted: compare its arguments when the cell is ln(arg)
                    c = term_of(cells[i], 'real')
                    if z3.is_app(c) and c.decl().name() == 'ln':
                        diffs.append(c.arg(0) != spec.arg(0))
                    else:
                        diffs.append(z3.BoolVal(True))
                else:
                    diffs.append(term_of(cells[i], 'real') != spec)
            bad_cells.append(z3_and(p.pc + [z3_or(diffs)]))
        col.prove(f'C18/{tag}/per-qubit-factor-is-channel-probability-of-the-letter', base, z3_or(bad_cells),
                  wit, 'factor i = q_I / q_X / q_Y / q_Z according to (x_i, z_i); all errors, all distributions')
        if not hist:      # (with the history, the tables are compared by the factor obligation itself)
          col.prove(f'C18/{tag}/distribution-tables-not-altered-by-the-query', base, z3_or(bad_tables), wit,
                    'the arrays handed out by probability_distribution (shared with every later reader: sampling, '
                    'decoder priors) hold the same values after error_probability returned')
        col.prove(f'C18/{tag}/result-is-{"sum-of-logs" if log_output else "product"}-of-the-n-factors', base,
                  z3_or(bad_struct), wit,
                  'exactly one reduction over the n per-qubit factors (log form: sum of logs, or the log of their '
                  'product, equal over the reals); distribution taken once from probability_distribution(code, '
                  'error_rate) (the one generate() samples from)')
    # normalisation: the four letters' factors sum to 1 per qubit (=> sum over 4^n errors is 1)
    col.prove('C18/spec/four-letters-sum-to-one-per-qubit', base,
              z3_or([Q['I'][i] + Q['X'][i] + Q['Y'][i] + Q['Z'][i] != 1 for i in range(n)]), wit,
              'with the per-letter factors above, the 4^n products sum to prod_i (q_I+q_X+q_Y+q_Z) = 1')
    return col.result()


def w_tables(cfg, tier):
    """cfg = 'tables <code>[/deformation[/axis]]': the tables the REAL PauliErrorModel.probability_distribution
    hands to error_probability, for symbolic (p, r_x, r_y) and the named noise deformation: per qubit the
    four entries are non-negative and sum to one (the premise of 'the 4^n probabilities sum to 1' that the
    other workers take as an assumption about an arbitrary table), and are the channel values permuted by
    the deformation.  Same symbolic run as C07's distribution worker, reported under C18."""
    from checks import c07
    res = c07.w_dist('dist ' + cfg.split(' ', 1)[1], tier)
    res['config'] = cfg
    for o in res['obs']:
        o['config'] = cfg
        o['oid'] = o['oid'].replace('C07/probability_distribution/', 'C18/real-tables/')
        if o.get('witness'):
            o['witness'] = dict(o['witness'], tables=True)
    return res


FP_ERRORS = {'identity': lambda n: [0] * (2 * n),
             'mixed': lambda n: [(1, 0, 1, 0)[i % 4] for i in range(n)] + [(0, 0, 1, 1)[i % 4] for i in range(n)],
             'all-Y': lambda n: [1] * (2 * n)}


def w_fp(cfg, tier):
    """cfg = 'fp <code> <error>': error_probability(log_output=True) in IEEE double precision.  The
    per-qubit channel probabilities are arbitrary doubles in (0, 1]; the error is one of three concrete
    patterns (the statement does not depend on the letters).  np.log is libm's contract (fp_ln_contract).
    Obligation: the log-probability of an error whose factors are all positive is finite -- the true
    logarithm is (>= -745.14 n); a log taken after the product has underflowed is -inf."""
    import struct
    from symx import core
    from symx.core import SymFP
    _install()
    from panqec.error_models import PauliErrorModel, BaseErrorModel
    _, cname, ename = cfg.split(' ')
    code = common.make_code(cname)
    n = code.n
    col = hz.Collector(cfg, timeout_ms=300000)
    col.encoded(BaseErrorModel.error_probability)
    F64 = z3.Float64()
    fv = lambda v: z3.FPVal(v, F64)
    Qb = {s: [z3.BitVec(f'b{s}_{i}', 64) for i in range(n)] for s in 'IXYZ'}
    Q = {s: [z3.fpBVToFP(b, F64) for b in Qb[s]] for s in 'IXYZ'}
    base = [c for s in 'IXYZ' for t in Q[s] for c in (z3.fpGT(t, fv(0.0)), z3.fpLEQ(t, fv(1.0)))]
    e = np.array(FP_ERRORS[ename](n), dtype=np.uint8)

    class Model(PauliErrorModel):
        def probability_distribution(self, code_, error_rate):
            return tuple(as_sa([SymFP(t) for t in Q[s]]) for s in 'IXYZ')
    del core.FP_LN_APPS[:]
    eng = Engine(name=cfg, incremental=False, max_paths=200)
    with eng:
        for c in base:
            eng.assume_base(c)        # branches on the factors (e.g. a mask `factor > 0`) are decided under the domain
        ps = eng.explore(lambda: BaseErrorModel.error_probability(Model(1 / 3, 1 / 3, 1 / 3), e, code, 0.1,
                                                                  log_output=True))
    col.absorb(eng)
    contract = core.fp_ln_contract()
    names = [f'b{s}_{i}' for s in 'IXYZ' for i in range(n)]
    for p in ps:
        if p.exc is not None or not isinstance(p.value, SymFP):
            col.record('C18/fp/log-form-is-a-double', 'sat' if p.exc is not None else 'unknown', 0, True, None,
                       f'{type(p.exc).__name__ if p.exc is not None else type(p.value).__name__}: '
                       f'{p.exc if p.exc is not None else p.value}')
            continue
        r = p.value.t
        terms = base + contract + p.pc + [z3.Or(z3.fpIsInf(r), z3.fpIsNaN(r))]
        try:
            v, vals, dt = col.solve_cvc5(terms, 300000, want=names, logic='QF_UFBVFP')
        except Exception as ex:     # noqa
            v, vals, dt = 'unknown', {}, 0.0
            col.notes.append(f'cvc5: {type(ex).__name__}: {ex}'[:300])
        wit = None
        if v == 'sat':
            q = {s: [struct.unpack('<d', struct.pack('<Q', vals[f'b{s}_{i}']))[0].hex() for i in range(n)]
                 for s in 'IXYZ'}
            wit = dict(error=e.tolist(), q_hex=q, fp=True)
        col.record('C18/fp/log-form-of-a-possible-error-is-finite', v, dt, True, wit,
                   f'double precision, n={n}, error pattern {ename}: all factors in (0,1] => log form is finite '
                   f'(decided by cvc5, QF_UFBVFP, {len(core.FP_LN_APPS)} instances of the np.log contract)')
        o = col.obs[-1]
        o['decided_by'] = 'cvc5'
        rr, _, dt2 = col.solve_cvc5(base + contract + p.pc, 60000, logic='QF_UFBVFP')
        col.record('C18/fp/reach', {'sat': 'reachable', 'unsat': 'vacuous'}.get(rr, 'unknown'), dt2, True, None,
                   'assumptions + np.log contract satisfiable', kind='reach')
    return col.result()


def w_metropolis(cfg, tier):
    """The Metropolis step of the splitting method: SplittingSimulation.get_next_error must accept with
    probability exp(min(0, log P(new) - log P(previous))) where both log-probabilities come from THIS
    simulation's own noise model for exactly these two errors, and must return the log-probability of the
    error it returns.  Two simulations with different noise models are stepped one after the other."""
    import panqec.simulation._splitting_simulation as ss
    from symx.core import uf, engine as _engine
    from symx.stubs import SymRng
    code = common.make_code(cfg.split(' ')[1])
    n = code.n
    col = hz.Collector(cfg)
    col.encoded(ss.SplittingSimulation.get_next_error)
    install(ss)

    class LogModel:
        """Noise model stub: every (error, rate) gets its own symbolic log-probability."""
        id = 'LogModel'
        params = {}

        def __init__(self, tag):
            self.tag = tag
            self.asked = []

        def probability_distribution(self, code_, rate):
            return tuple(np.full(code_.n, 0.25) for _ in range(4))

        def error_probability(self, error, code_, rate, log_output=False):
            key = ''.join(str(int(x)) for x in np.asarray(error).reshape(-1))
            t = z3.Real(f'lp_{self.tag}_{key}')
            self.asked.append((key, rate, log_output, t))
            return SymReal(t)

    class ZeroDecoder:
        id = 'Zero'
        params = {}
        label = 'zero'

        def decode(self, syndrome, **k):
            return np.zeros(2 * n, dtype=np.uint8)

    class FakeRandom:
        def __init__(self):
            self.rng = SymRng('mc')
            self.accept = []

        def choice(self, a, p=None, **k):
            if p is not None:
                self.accept.append(p)
                b = Bit(z3.Bool(_engine().path_name('accept')))
                return b
            r_ = self.rng.choice(list(range(a)) if isinstance(a, (int, np.integer)) else list(a))
            return int(r_) if isinstance(a, (int, np.integer)) else r_      # qubit index: realised
    prev = np.asarray(code.logicals_x[0]).copy()
    eng = Engine(name=cfg, max_paths=20000)
    saved = ss.np
    try:
        with eng:
            def fn():
                out = []
                sims = []
                for tag in ('A', 'B'):
                    m_ = LogModel(tag)
                    sim = ss.SplittingSimulation.__new__(ss.SplittingSimulation)
                    sim.code, sim.error_model = code, m_
                    sims.append((sim, m_))
                for sim, m_ in sims:                    # A first, then B: same error, same rate
                    fr = FakeRandom()
                    ss.np.random = fr                    # module-global numpy proxy: only `random` is scripted
                    nxt, lp = sim.get_next_error(ZeroDecoder(), 0.125, prev.copy())
                    out.append(dict(tag=m_.tag, next=[int(x) for x in np.asarray(nxt)], lp=lp, asked=list(m_.asked),
                                    accept=list(fr.accept)))
                return out
            ps = eng.explore(fn)
    finally:
        try:
            del ss.np.random
        except Exception:
            pass
    col.absorb(eng)
    bad_q, bad_lp, bad_own = [], [], []
    for p in ps:
        if p.exc is not None:
            r, m, dt = col.solve(p.pc)
            col.record('C18/metropolis/no-exception', r, dt, True, None, f'{type(p.exc).__name__}: {p.exc}')
            continue
        for rec in p.value:
            prev_key = ''.join(str(int(x)) for x in prev)
            asked = {k_: t for k_, rate, lo, t in rec['asked'] if lo and rate == 0.125}
            own = prev_key in asked and len(asked) == 2
            bad_own.append(z3_and(p.pc + [z3.BoolVal(not own)]))
            if not own:
                continue
            lpp = asked[prev_key]
            lpn = [t for k_, t in asked.items() if k_ != prev_key][0]
            if len(rec['accept']) != 1:
                bad_q.append(z3_and(p.pc))
                continue
            pr = rec['accept'][0]
            q = term_of(pr[1], 'real')
            d_ = lpn - lpp
            want_q = z3.If(d_ < 0, uf('exp')(d_), z3.RealVal(1))
            bad_q.append(z3_and(p.pc + [z3.Or(q != want_q, term_of(pr[0], 'real') != 1 - want_q)]))
            nxt_key = ''.join(map(str, rec['next']))
            want_lp = asked.get(nxt_key)
            bad_lp.append(z3_and(p.pc + [z3.BoolVal(want_lp is None) if want_lp is None
                                         else term_of(rec['lp'], 'real') != want_lp]))
    w = lambda m: dict(model=str(m)[:300], metropolis=True)
    col.prove('C18/metropolis/uses-this-simulations-own-log-probabilities', [], z3_or(bad_own), w,
              'get_next_error asks its own error_model for log P(previous) and log P(new), every call, for both of two '
              'simulations stepped one after the other')
    col.prove('C18/metropolis/acceptance-is-exp-min-0-log-ratio', [], z3_or(bad_q), w,
              'probabilities handed to the accept/reject draw are (1-q, q) with q = exp(min(0, logP(new)-logP(previous)))')
    col.prove('C18/metropolis/returned-log-probability-belongs-to-the-returned-error', [], z3_or(bad_lp), w)
    return col.result()


def replay(path):
    from panqec.error_models import PauliErrorModel
    with open(path) as f:
        d = json.load(f)
    w, oid, cfg = d['witness'], d['oid'], d['config']
    if cfg.startswith('metropolis'):
        res = w_metropolis(cfg, 'quick')
        bad = any(o['oid'] == oid and o['verdict'] == 'sat' for o in res['obs'])
        print('REPLAY', 'reproduced' if bad else 'not-reproduced', oid, cfg)
        return 0
    if w.get('tables'):
        import subprocess
        import tempfile
        from checks import c07
        d2 = dict(d, oid=oid.replace('C18/real-tables/', 'C07/probability_distribution/'),
                  config='dist ' + cfg.split(' ', 1)[1])
        with tempfile.NamedTemporaryFile('w', suffix='.json', delete=False) as f:
            json.dump(d2, f)
        import io
        import contextlib
        buf = io.StringIO()
        with contextlib.redirect_stdout(buf):
            c07.replay(f.name)
        out = buf.getvalue()
        print(out)
        bad = any(l.startswith('REPLAY reproduced') for l in out.splitlines())
        print('REPLAY', 'reproduced' if bad else 'not-reproduced', oid, cfg)
        return 0
    if w.get('fp'):
        import math
        code = common.make_code(cfg.split(' ')[1])
        n = code.n
        e = np.array(w['error'], dtype=np.uint8)
        q = {s: [float.fromhex(x) for x in w['q_hex'][s]] for s in 'IXYZ'}

        class ModelF(PauliErrorModel):
            def probability_distribution(self, code_, error_rate):
                return tuple(np.array(q[s]) for s in 'IXYZ')
        fac = [q[{(0, 0): 'I', (1, 0): 'X', (1, 1): 'Y', (0, 1): 'Z'}[(int(e[i]), int(e[n + i]))]][i] for i in range(n)]
        with np.errstate(divide='ignore'):
            got = ModelF(1 / 3, 1 / 3, 1 / 3).error_probability(e, code, 0.1, log_output=True)
        ref = sum(math.log(f) for f in fac) if all(f > 0 for f in fac) else None
        print('factors', fac, 'log form', got, 'sum of the logs of the factors', ref)
        bad = ref is not None and not np.isfinite(got)
        print('REPLAY', 'reproduced' if bad else 'not-reproduced', oid, cfg)
        return 0
    code = common.make_code(cfg)
    n = code.n
    e = np.array(w['error'], dtype=np.uint8)
    q = {s: [float(Fraction(x)) for x in w['q'][s]] for s in 'IXYZ'}

    if 'tables-not-altered' in oid:
        tabs = tuple(np.array(q[s]) for s in 'IXYZ')
        keep = [t.copy() for t in tabs]

        class ModelT(PauliErrorModel):
            def probability_distribution(self, code_, error_rate):
                return tabs
        with np.errstate(divide='ignore'):
            ModelT(1 / 3, 1 / 3, 1 / 3).error_probability(e, code, 0.1, log_output=('/log/' in oid))
        bad = any((a != b).any() for a, b in zip(tabs, keep))
        print('tables before', [k_.tolist() for k_ in keep], 'after', [t.tolist() for t in tabs])
        print('REPLAY', 'reproduced' if bad else 'not-reproduced', oid, cfg)
        return 0

    class Model(PauliErrorModel):
        def probability_distribution(self, code_, error_rate):
            return tuple(np.array(q[s]) for s in 'IXYZ')
    if 'after-get_weights' in oid:
        tabs2 = tuple(np.array(q[s]) for s in 'IXYZ')

        class ModelH(PauliErrorModel):
            def probability_distribution(self, code_, error_rate):
                return tabs2
        model = ModelH(1 / 3, 1 / 3, 1 / 3)
        with np.errstate(all='ignore'):
            model.get_weights(code, 0.1)
    else:
        model = Model(1 / 3, 1 / 3, 1 / 3)
    want = 1.0
    for i in range(n):
        want *= q[{(0, 0): 'I', (1, 0): 'X', (1, 1): 'Y', (0, 1): 'Z'}[(int(e[i]), int(e[n + i]))]][i]
    bad = False
    try:
        got = model.error_probability(e, code, 0.1, log_output=False)
        bad = abs(got - want) > 1e-9 * max(1.0, abs(want))
        if not bad:
            with np.errstate(divide='ignore'):
                gl = model.error_probability(e, code, 0.1, log_output=True)
            wl = np.log(want) if want > 0 else -np.inf
            print('log form', gl, 'log of the product', wl)
            bad = (gl != wl) if not np.isfinite(wl) else abs(gl - wl) > 1e-9 * max(1.0, abs(wl))
        print('error_probability', got, 'product of channel probabilities', want)
    except Exception as ex:
        print('exception on replay', type(ex).__name__, ex)
        bad = True
    print('REPLAY', 'reproduced' if bad else 'not-reproduced', oid, cfg)
    return 0


def configs(tier):
    c = ['RotatedPlanar2DCode(2,2)', 'Toric2DCode(2,3)', 'Toric3DCode(2,2,2)/XZZX/z', 'metropolis RotatedPlanar2DCode(2,2)']
    c += [f'fp RotatedPlanar2DCode(2,2) {e}' for e in FP_ERRORS]
    c += ['tables RotatedPlanar2DCode(2,2)', 'tables RotatedPlanar2DCode(2,2)/XY', 'tables Toric2DCode(2,3)/XZZX/x',
          'tables RhombicPlanarCode(2,2,2)/Checkerboard_XZZX', 'tables Color488Code(2,2)/XXZZ']
    if tier != 'quick':
        c += [f'fp Toric2DCode(2,2) {e}' for e in FP_ERRORS] + ['fp Planar2DCode(2,3) mixed']
    if tier != 'quick':
        c += ['metropolis Planar2DCode(2,2)', 'Planar2DCode(3,3)/XY', 'RhombicPlanarCode(2,2,2)/Checkerboard_XZZX', 'XCubeCode(2,2,2)',
              'Color666PlanarCode(2,2)', 'RotatedPlanar3DCode(3,3,3)']
    return c


def main(argv=None):
    a = hz.std_args(argv)
    if a.replay:
        return replay(a.replay)
    t0 = time.time()
    cfgs = common.order(configs(a.tier), a.seed)
    if a.only:
        cfgs = [c for c in cfgs if a.only in c]
    res = hz.run_configs('checks.c18', 'worker', cfgs, dict(tier=a.tier), jobs=a.jobs)
    return hz.finish(
        PID, a.tier, a.seed, res, t0,
        assumptions=['floats are reals', 'probability_distribution is a stub returning arbitrary per-qubit '
                     'distributions (its real implementation is decided by C07/C08)',
                     'np.prod / np.sum / np.log are numpy\'s (observed, not re-verified)'],
        bounds=dict(symbolic='all 2n error bits; 4n real probabilities', configurations=len(cfgs),
                    note='the per-qubit statement does not depend on n; configurations only vary n'),
        stubs=['PauliErrorModel.probability_distribution -> arbitrary distributions',
               'module-global np of _base_error_model -> symx NpProxy (allocation + observation point)'],
        outside=['the rest of the splitting simulation (initial error, the outer loop, compute_optimal_c)', 'float rounding'])


if __name__ == '__main__':
    sys.exit(main())
