"""C18 — error probabilities multiply per qubit and normalise.

Real function executed symbolically: BaseErrorModel.error_probability (both log_output values) on a
fully symbolic error, with probability_distribution replaced by a stub returning ARBITRARY per-qubit
distributions (q_I, q_X, q_Y, q_Z >= 0, sum 1) — its real implementation is C07's / C08's subject.
Cells are read at the np.prod / np.sum(np.log(.)) observation point (linearity discipline)."""
import json
import sys
import time
from fractions import Fraction

import numpy as np
import z3

from symx import Engine, as_sa, install, NP
from symx.core import z3_and, z3_or, bool_term, Bit, SymReal, term_of, model_frac
from symx import harness as hz
from checks import common

PID = 'C18'


def _install():
    import panqec.error_models._base_error_model as bem
    install(bem)


def worker(cfg, tier='quick'):
    _install()
    from panqec.error_models import PauliErrorModel, BaseErrorModel
    col = hz.Collector(cfg)
    code = common.make_code(cfg)
    n = code.n
    col.encoded(BaseErrorModel.error_probability)
    E = [z3.Bool(f'e_{i}') for i in range(2 * n)]
    Q = {s: [z3.Real(f'q{s}_{i}') for i in range(n)] for s in 'IXYZ'}
    base = []
    for i in range(n):
        base += [Q[s][i] >= 0 for s in 'IXYZ']
        base.append(Q['I'][i] + Q['X'][i] + Q['Y'][i] + Q['Z'][i] == 1)
    calls = []

    class Model(PauliErrorModel):
        def probability_distribution(self, code_, error_rate):
            calls.append((code_, error_rate))
            return tuple(as_sa([SymReal(t) for t in Q[s]]) for s in 'IXYZ')

    def wit(m):
        return dict(error=[1 if z3.is_true(m.eval(b, model_completion=True)) else 0 for b in E],
                    q={s: [str(model_frac(m, t)) for t in Q[s]] for s in 'IXYZ'})

    for log_output in (False, True):
        tag = 'log' if log_output else 'prod'
        eng = Engine(name=f'{cfg}#{tag}')
        with eng:
            def fn():
                del calls[:]
                del NP.observed[:]
                model = Model(1 / 3, 1 / 3, 1 / 3)
                e = as_sa([Bit(b) for b in E])
                r = BaseErrorModel.error_probability(model, e, code, 0.1, log_output=log_output)
                return r, list(NP.observed), list(calls)
            ps = eng.explore(fn)
        col.absorb(eng)
        bad_cells, bad_struct = [], []
        for p in ps:
            if p.exc is not None:
                r_, m_, dt_ = col.solve(base + p.pc)
                col.record('C18/no-exception', r_, dt_, True, wit(m_) if m_ is not None else None,
                           f'{type(p.exc).__name__}: {p.exc}')
                continue
            r, obs, cl = p.value
            want_kind = 'sum' if log_output else 'prod'
            red = [a for k, a in obs if k == want_kind]
            ok_struct = len(red) == 1 and np.asarray(red[0]).shape == (n,) and len(cl) == 1 \
                and cl[0][0] is code and cl[0][1] == 0.1
            bad_struct.append(z3_and(p.pc + [z3.BoolVal(not ok_struct)]))
            if not ok_struct:
                continue
            cells = list(np.asarray(red[0]).reshape(-1))
            diffs = []
            for i in range(n):
                x, z = E[i], E[n + i]
                spec = z3.If(x, z3.If(z, Q['Y'][i], Q['X'][i]), z3.If(z, Q['Z'][i], Q['I'][i]))
                if log_output:
                    from symx.core import uf
                    spec = uf('ln')(spec)
                    # ln is uninterpreted: compare its arguments when the cell is ln(arg)
                    c = term_of(cells[i], 'real')
                    if z3.is_app(c) and c.decl().name() == 'ln':
                        diffs.append(c.arg(0) != spec.arg(0))
                    else:
                        diffs.append(z3.BoolVal(True))
                else:
                    diffs.append(term_of(cells[i], 'real') != spec)
            bad_cells.append(z3_and(p.pc + [z3_or(diffs)]))
        col.prove(f'C18/{tag}/per-qubit-factor-is-channel-probability-of-the-letter', base, z3_or(bad_cells),
                  wit, 'factor i = q_I / q_X / q_Y / q_Z according to (x_i, z_i); all errors, all distributions')
        col.prove(f'C18/{tag}/result-is-{"sum-of-logs" if log_output else "product"}-of-the-n-factors', base,
                  z3_or(bad_struct), wit,
                  'exactly one reduction over the n per-qubit factors; distribution taken once from '
                  'probability_distribution(code, error_rate) (the one generate() samples from)')
    # normalisation: the four letters' factors sum to 1 per qubit (=> sum over 4^n errors is 1)
    col.prove('C18/spec/four-letters-sum-to-one-per-qubit', base,
              z3_or([Q['I'][i] + Q['X'][i] + Q['Y'][i] + Q['Z'][i] != 1 for i in range(n)]), wit,
              'with the per-letter factors above, the 4^n products sum to prod_i (q_I+q_X+q_Y+q_Z) = 1')
    return col.result()


def replay(path):
    from panqec.error_models import PauliErrorModel
    with open(path) as f:
        d = json.load(f)
    w, oid, cfg = d['witness'], d['oid'], d['config']
    code = common.make_code(cfg)
    n = code.n
    e = np.array(w['error'], dtype=np.uint8)
    q = {s: [float(Fraction(x)) for x in w['q'][s]] for s in 'IXYZ'}

    class Model(PauliErrorModel):
        def probability_distribution(self, code_, error_rate):
            return tuple(np.array(q[s]) for s in 'IXYZ')
    model = Model(1 / 3, 1 / 3, 1 / 3)
    want = 1.0
    for i in range(n):
        want *= q[{(0, 0): 'I', (1, 0): 'X', (1, 1): 'Y', (0, 1): 'Z'}[(int(e[i]), int(e[n + i]))]][i]
    bad = False
    try:
        got = model.error_probability(e, code, 0.1, log_output=False)
        bad = abs(got - want) > 1e-9 * max(1.0, abs(want))
        if not bad:
            with np.errstate(divide='ignore'):
                gl = model.error_probability(e, code, 0.1, log_output=True)
            wl = np.log(want) if want > 0 else -np.inf
            print('log form', gl, 'log of the product', wl)
            bad = (gl != wl) if not np.isfinite(wl) else abs(gl - wl) > 1e-9 * max(1.0, abs(wl))
        print('error_probability', got, 'product of channel probabilities', want)
    except Exception as ex:
        print('exception on replay', type(ex).__name__, ex)
        bad = True
    print('REPLAY', 'reproduced' if bad else 'not-reproduced', oid, cfg)
    return 0


def configs(tier):
    c = ['RotatedPlanar2DCode(2,2)', 'Toric2DCode(2,3)', 'Toric3DCode(2,2,2)/XZZX/z']
    if tier != 'quick':
        c += ['Planar2DCode(3,3)/XY', 'RhombicPlanarCode(2,2,2)/Checkerboard_XZZX', 'XCubeCode(2,2,2)',
              'Color666PlanarCode(2,2)', 'RotatedPlanar3DCode(3,3,3)']
    return c


def main(argv=None):
    a = hz.std_args(argv)
    if a.replay:
        return replay(a.replay)
    t0 = time.time()
    cfgs = common.order(configs(a.tier), a.seed)
    if a.only:
        cfgs = [c for c in cfgs if a.only in c]
    res = hz.run_configs('checks.c18', 'worker', cfgs, dict(tier=a.tier), jobs=a.jobs)
    return hz.finish(
        PID, a.tier, a.seed, res, t0,
        assumptions=['floats are reals', 'probability_distribution is a stub returning arbitrary per-qubit '
                     'distributions (its real implementation is decided by C07/C08)',
                     'np.prod / np.sum / np.log are numpy\'s (observed, not re-verified)'],
        bounds=dict(symbolic='all 2n error bits; 4n real probabilities', configurations=len(cfgs),
                    note='the per-qubit statement does not depend on n; configurations only vary n'),
        stubs=['PauliErrorModel.probability_distribution -> arbitrary distributions',
               'module-global np of _base_error_model -> symx NpProxy (allocation + observation point)'],
        outside=['the splitting simulation\'s Metropolis loop (it consumes this value)', 'float rounding'])


if __name__ == '__main__':
    sys.exit(main())
