"""C08 — a Clifford deformation is one consistent single-qubit relabelling.

Real functions executed symbolically: get_deformation (symbolic qubit location), qubit_axis,
deformed / undeformed get_stabilizer on one symbolic stabilizer location, measure_syndrome and
logical_errors of the deformed and the undeformed object on symbolic errors, PauliErrorModel.
probability_distribution with symbolic (p, r_x, r_y, r_z), bpauli.apply_deformation with symbolic
vectors and masks, StabilizerCode.deform along enumerated call histories."""
import itertools
import json
import sys
import time

import numpy as np
import z3

from symx import Engine, as_sa, install, gf2
from symx import lattice as lt
from symx.core import z3_xor, z3_and, z3_or, bool_term, Bit, SymInt, SymReal, term_of
from symx import harness as hz
from checks import common

PID = 'C08'
PAULIS = ('X', 'Y', 'Z')
BITS = {'X': (1, 0), 'Y': (1, 1), 'Z': (0, 1)}


def _install():
    import panqec.bpauli
    import panqec.bsparse
    import panqec.codes.base._stabilizer_code as sc
    import panqec.error_models._pauli_error_model as pem
    import panqec.error_models._base_error_model as bem
    install(panqec.bpauli, panqec.bsparse, sc, pem, bem)


def expected_map(name, on_axis):
    if name == 'XZZX':
        return {'X': 'Z', 'Y': 'Y', 'Z': 'X'} if on_axis else {'X': 'X', 'Y': 'Y', 'Z': 'Z'}
    if name == 'XY':
        return {'X': 'X', 'Y': 'Z', 'Z': 'Y'}
    return None


def deform_bits(dmap, x, z):
    """Image (x', z') of the Pauli with bits (x, z) under the letter permutation dmap (linear)."""
    ax, az = BITS[dmap['X']]     # image of X = (1,0)
    bx, bz = BITS[dmap['Z']]     # image of Z = (0,1)
    nx = z3_xor(([x] if ax else []) + ([z] if bx else []))
    nz = z3_xor(([x] if az else []) + ([z] if bz else []))
    return nx, nz


def worker(cfg, tier='quick'):
    if cfg.startswith('apply_deformation'):
        return w_apply(cfg, tier)
    _install()
    import panqec.codes as pc
    from panqec.codes import StabilizerCode
    from panqec.error_models import PauliErrorModel
    cls_name, size, name, axis = common.parse_cfg(cfg)
    kw = {'deformation_axis': axis} if axis else {}
    col = hz.Collector(cfg)
    und = getattr(pc, cls_name)(*size)
    dfm = common.make_code(cfg)
    cls = type(und)
    col.encoded(cls.get_deformation, cls.qubit_axis, cls.get_stabilizer, StabilizerCode.deform,
                StabilizerCode.measure_syndrome, StabilizerCode.logical_errors,
                PauliErrorModel.probability_distribution)
    n = und.n
    qc = list(und.qubit_coordinates)
    # concrete tables first (the real code builds them), then the symbolic shadows
    Hu, Hd = und.stabilizer_matrix, dfm.stabilizer_matrix
    und.logicals_x, und.logicals_z, dfm.logicals_x, dfm.logicals_z
    facts = {'n-preserved': und.n == dfm.n, 'k-preserved': und.k == dfm.k,
             'rank-preserved': gf2.rank_and_kernel(gf2.rows_of(Hu), 2 * n)[0] ==
             gf2.rank_and_kernel(gf2.rows_of(Hd), 2 * n)[0],
             'coordinates-preserved': list(dfm.qubit_coordinates) == qc and
             list(dfm.stabilizer_coordinates) == list(und.stabilizer_coordinates)}
    for k_, ok in facts.items():
        col.record(f'C08/{k_}', 'unsat' if ok else 'sat', 0, False, dict(fact=k_) if not ok else None,
                   'ground fact')
    dmaps = [und.get_deformation(q, name, **kw) for q in qc]        # concrete D_i

    # (1) get_deformation on a symbolic qubit location
    lt.symbolize(und)
    lt.symbolize(dfm)
    for qd in sorted({len(c) for c in qc}):
        eng = Engine(name=cfg + '#getdef')
        with eng:
            q = lt.sym_location(eng, f'q{qd}_', [c for c in qc if len(c) == qd], und.qubit_index)

            def fn():
                d = und.get_deformation(q, name, **kw)
                ax = und.qubit_axis(q) if name == 'XZZX' and axis else None
                return dict(d), ax
            paths = eng.explore(fn)
        col.absorb(eng)
        qv = [c.t for c in q]
        fresh_und = getattr(pc, cls_name)(*size)
        lt.validate_paths_at(
            col, cfg + '#getdef', paths, qv, [c for c in qc if len(c) == qd],
            lambda loc: (dict(fresh_und.get_deformation(loc, name, **kw)),
                         fresh_und.qubit_axis(loc) if name == 'XZZX' and axis else None),
            lambda v, sub: (dict(v[0]), lt.concretise(v[1], sub)),
            impure_oid='C08/get_deformation/is-a-function-of-the-location')
        wit_q = lambda m, qv=qv: dict(q=[m.eval(v, model_completion=True).as_long() for v in qv])
        bad_bij, bad_inv, bad_spec = [], [], []
        for p in paths:
            if p.exc is not None:
                r, m, dt = col.solve(eng.base + p.pc)
                col.record('C08/get_deformation/no-exception', r, dt, True, wit_q(m) if m else None,
                           f'{type(p.exc).__name__}: {p.exc}')
                continue
            d, ax = p.value
            bij = sorted(d.keys()) == list(PAULIS) and sorted(d.values()) == list(PAULIS)
            inv = bij and all(d[d[s]] == s for s in PAULIS)
            bad_bij.append(z3_and(p.pc + [z3.BoolVal(not bij)]))
            bad_inv.append(z3_and(p.pc + [z3.BoolVal(not inv)]))
            exp = expected_map(name, ax == axis)
            if exp is not None:
                bad_spec.append(z3_and(p.pc + [z3.BoolVal(d != exp)]))
        col.prove(f'C08/get_deformation/bijection-of-XYZ/arity{qd}', eng.base, z3_or(bad_bij), wit_q)
        col.prove(f'C08/get_deformation/involution/arity{qd}', eng.base, z3_or(bad_inv), wit_q,
                  'a fixed single-qubit Clifford relabelling of order <= 2')
        if bad_spec:
            col.prove(f'C08/get_deformation/matches-named-deformation/arity{qd}', eng.base, z3_or(bad_spec),
                      wit_q, 'XZZX: X<->Z exactly where qubit_axis(q)==axis, identity elsewhere; XY: Y<->Z '
                      'everywhere')
        col.prove(f'C08/get_deformation/paths-cover/arity{qd}', eng.base,
                  z3.Not(z3_or([z3_and(p.pc) for p in paths])), wit_q)

    # (2) the deformed code sees D(e) exactly as the original sees e  (all e)
    E = [z3.Bool(f'e_{i}') for i in range(2 * n)]
    De = [None] * (2 * n)
    for i in range(n):
        De[i], De[n + i] = deform_bits(dmaps[i], E[i], E[n + i])
    eng = Engine(name=cfg + '#equiv')
    with eng:
        def fn2():
            e = as_sa([Bit(b) for b in E])
            de = as_sa([Bit(b) for b in De])
            return (und.measure_syndrome(e), dfm.measure_syndrome(de), und.logical_errors(e),
                    dfm.logical_errors(de))
        ps = eng.explore(fn2)
    col.absorb(eng)
    bs, bl = [], []
    for p in ps:
        if p.exc is not None:
            col.record('C08/equivalence/no-exception', 'sat', 0, True, None, f'{type(p.exc).__name__}: {p.exc}')
            continue
        su, sd, lu, ld = [list(np.asarray(v).reshape(-1)) for v in p.value]
        bs.append(z3_and(p.pc + [z3_or([z3.BoolVal(len(su) != len(sd))] +
                                       [z3_xor([bool_term(a), bool_term(b)]) for a, b in zip(su, sd)])]))
        bl.append(z3_and(p.pc + [z3_or([z3.BoolVal(len(lu) != len(ld))] +
                                       [z3_xor([bool_term(a), bool_term(b)]) for a, b in zip(lu, ld)])]))

    def wit_e(m):
        return dict(error=[1 if z3.is_true(m.eval(b, model_completion=True)) else 0 for b in E])
    col.prove('C08/deformed-code-sees-D(e)-as-original-sees-e/syndrome', [], z3_or(bs), wit_e,
              'deformed.measure_syndrome(D e) == original.measure_syndrome(e) for all 4^n errors')
    col.prove('C08/deformed-code-sees-D(e)-as-original-sees-e/logical-effect', [], z3_or(bl), wit_e)

    # (3) noise side: p_def[sigma][i] == p_undef[D_i(sigma)][i] with symbolic p and direction
    eng = Engine(name=cfg + '#noise')
    with eng:
        p_ = eng.real('p', 0, 1)
        rx, ry = eng.real('rx', 0, 1), eng.real('ry', 0, 1)
        rz = SymReal(1 - rx.t - ry.t)
        eng.assume_base(rz.t >= 0)

        def fn3():
            m0 = PauliErrorModel.__new__(PauliErrorModel)
            m0._direction, m0._deformation_name, m0._deformation_kwargs = (rx, ry, rz), None, {}
            m1 = PauliErrorModel.__new__(PauliErrorModel)
            m1._direction, m1._deformation_name, m1._deformation_kwargs = (rx, ry, rz), name, dict(kw)
            f = PauliErrorModel.probability_distribution.__wrapped__
            return f(m0, und, p_), f(m1, und, p_)
        ps = eng.explore(fn3)
    col.absorb(eng)
    bad = []
    base_spec = {'I': 1 - p_.t, 'X': rx.t * p_.t, 'Y': ry.t * p_.t, 'Z': rz.t * p_.t}
    for p in ps:
        if p.exc is not None:
            col.record('C08/noise/no-exception', 'sat', 0, True, None, f'{type(p.exc).__name__}: {p.exc}')
            continue
        u, d = p.value
        iu = dict(zip('IXYZ', u))
        idf = dict(zip('IXYZ', d))
        diffs = []
        for i in range(n):
            for s in 'IXYZ':
                src = s if s == 'I' else dmaps[i][s]
                # structural comparison after simplification: the cells are polynomials in p, r
                a = z3.simplify(term_of(idf[s][i], 'real') - base_spec[src], som=True)
                b = z3.simplify(term_of(iu[s][i], 'real') - base_spec[s], som=True)
                diffs.append(z3.Or(a != 0, b != 0))
        bad.append(z3_and(p.pc + [z3_or(diffs)]))

    def wit_p(m):
        from symx.core import model_frac
        return dict(p=str(model_frac(m, p_.t)), rx=str(model_frac(m, rx.t)), ry=str(model_frac(m, ry.t)))
    col.prove('C08/noise/deformed-probabilities-are-the-relabelled-ones', eng.base, z3_or(bad), wit_p,
              'p_def[s][i] = p*r_{D_i(s)}, p_undef[s][i] = p*r_s for every qubit and letter, all (p, r)',
              timeout_ms=60000)

    # (4) history independence of deform(): every sequence of <= 2 earlier operations
    ops = [('deform', nm, ax) for nm, ax in common.deformations(cls_name) if nm] + \
          [('touch', 'stabilizer_matrix', None), ('touch', 'logicals', None), ('touch', 'Hx', None)]
    hist_len = 1 if tier == 'quick' else 2
    seqs = [s for L in range(1, hist_len + 1) for s in itertools.product(ops, repeat=L)]
    E2 = [z3.Bool(f'h_{i}') for i in range(2 * n)]
    badh = []
    nseq = 0
    for seq in seqs:
        obj = getattr(pc, cls_name)(*size)
        try:
            for kind, a1, a2 in seq:
                if kind == 'deform':
                    obj.deform(a1, **({'deformation_axis': a2} if a2 else {}))
                elif a1 == 'logicals':
                    obj.logicals_x, obj.logicals_z
                elif a1 == 'Hx':
                    if obj.is_css:
                        obj.Hx, obj.Hz
                else:
                    getattr(obj, a1)
            obj.deform(name, **kw)
        except Exception as ex:
            col.record('C08/history/no-exception', 'sat', 0, True, dict(history=[list(map(str, s)) for s in seq]),
                       f'{type(ex).__name__}: {ex}')
            continue
        nseq += 1
        eng = Engine(name=cfg + '#hist')
        with eng:
            def fn4():
                e = as_sa([Bit(b) for b in E2])
                return (obj.measure_syndrome(e), dfm.measure_syndrome(e), obj.logical_errors(e),
                        dfm.logical_errors(e))
            ps = eng.explore(fn4)
        col.absorb(eng)
        for p in ps:
            if p.exc is not None:
                col.record('C08/history/no-exception', 'sat', 0, True,
                           dict(history=[list(map(str, s)) for s in seq]), str(p.exc))
                continue
            s1, s2, l1, l2 = [list(np.asarray(v).reshape(-1)) for v in p.value]
            dif = [z3.BoolVal(len(s1) != len(s2) or len(l1) != len(l2))]
            dif += [z3_xor([bool_term(a), bool_term(b)]) for a, b in zip(s1 + l1, s2 + l2)]
            t = z3.simplify(z3_and(p.pc + [z3_or(dif)]))
            if not z3.is_false(t):
                badh.append((seq, t))
    if badh:
        for seq, t in badh[:3]:
            col.prove('C08/history/deform-result-independent-of-earlier-operations', [], t,
                      lambda m, seq=seq: dict(history=[list(map(str, s)) for s in seq],
                                              error=[1 if z3.is_true(m.eval(b, model_completion=True)) else 0
                                                     for b in E2]),
                      f'history {seq}')
    else:
        col.record('C08/history/deform-result-independent-of-earlier-operations', 'unsat', 0, False, None,
                   f'{nseq} operation histories of length <= {hist_len}: syndrome and logical maps of the final '
                   'object are cell-wise identical (XOR normal form) to those of a fresh object deformed once')
    return col.result()


def w_apply(cfg, tier):
    """apply_deformation == Hadamard bit swap on the index set (symbolic vector, symbolic mask)."""
    _install()
    import panqec.bpauli as bp
    n = int(cfg.split('=')[1].split()[0])
    rows = int(cfg.split('rows=')[1])
    col = hz.Collector(cfg)
    col.encoded(bp.apply_deformation)
    R = max(rows, 1)
    V = [[z3.Bool(f'v_{r}_{i}') for i in range(2 * n)] for r in range(R)]
    M = [z3.Bool(f'm_{i}') for i in range(n)]
    eng = Engine(name=cfg)
    with eng:
        def fn():
            mask = [Bit(b) for b in M]
            cells = [[Bit(b) for b in row] for row in V]
            bsf = as_sa(np.array(cells if rows else cells[0], dtype=object))
            return bp.apply_deformation(mask, bsf)
        ps = eng.explore(fn)
    col.absorb(eng)
    bad = []
    for p in ps:
        if p.exc is not None:
            col.record('C08/apply_deformation/no-exception', 'sat', 0, True, None, str(p.exc))
            continue
        out = np.asarray(p.value).reshape(R, 2 * n)
        dif = []
        for r in range(R):
            for i in range(n):
                dif.append(z3.Xor(bool_term(out[r, i]), z3.If(M[i], V[r][n + i], V[r][i])))
                dif.append(z3.Xor(bool_term(out[r, n + i]), z3.If(M[i], V[r][i], V[r][n + i])))
        bad.append(z3_and(p.pc + [z3_or(dif)]))

    def wit(m):
        g = lambda bs: [1 if z3.is_true(m.eval(b, model_completion=True)) else 0 for b in bs]
        return dict(mask=g(M), bsf=[g(r) for r in V], rows=rows, n=n)
    col.prove('C08/apply_deformation/is-hadamard-on-index-set', [], z3_or(bad), wit)
    col.prove('C08/apply_deformation/paths-cover', [], z3.Not(z3_or([z3_and(p.pc) for p in ps])), wit)
    return col.result()


def replay(path):
    import panqec.codes as pc
    import panqec.bpauli as bp
    from panqec.error_models import PauliErrorModel
    with open(path) as f:
        d = json.load(f)
    w, oid, cfg = d['witness'], d['oid'], d['config']
    if isinstance(w, dict) and w.get('impure'):
        # the real function returned two different values for the same argument: re-run the worker in this fresh
        # interpreter; the obligation must be reported again
        res = worker(cfg)
        bad = any(o['oid'] == oid and o['verdict'] == 'sat' for o in res['obs'])
        print('impure function at', w.get('location'))
        print('REPLAY', 'reproduced' if bad else 'not-reproduced', oid, cfg)
        return 0
    bad = False
    try:
        if cfg.startswith('apply_deformation'):
            n = w['n']
            bsf = np.array(w['bsf'] if w['rows'] else w['bsf'][0], dtype=np.uint8)
            out = bp.apply_deformation([bool(b) for b in w['mask']], bsf)
            want = bsf.copy()
            for i, mk in enumerate(w['mask']):
                if mk:
                    want[..., i], want[..., n + i] = bsf[..., n + i], bsf[..., i]
            bad = not np.array_equal(out, want)
        else:
            cls_name, size, name, axis = common.parse_cfg(cfg)
            kw = {'deformation_axis': axis} if axis else {}
            und = getattr(pc, cls_name)(*size)
            dfm = common.make_code(cfg)
            n = und.n
            qc = und.qubit_coordinates
            if 'get_deformation' in oid:
                q = tuple(w['q'])
                if q in und.qubit_index:
                    dm = und.get_deformation(q, name, **kw)
                    ok = sorted(dm) == list(PAULIS) and sorted(dm.values()) == list(PAULIS) and \
                        all(dm[dm[s]] == s for s in PAULIS)
                    exp = expected_map(name, (und.qubit_axis(q) == axis) if axis else False)
                    bad = (not ok) or (exp is not None and 'matches' in oid and dm != exp)
            elif 'deformed-code-sees' in oid:
                e = np.array(w['error'], dtype=np.uint8)
                de = e.copy()
                for i in range(n):
                    dm = und.get_deformation(qc[i], name, **kw)
                    x, z = int(e[i]), int(e[n + i])
                    if x or z:
                        letter = {(1, 0): 'X', (1, 1): 'Y', (0, 1): 'Z'}[(x, z)]
                        de[i], de[n + i] = BITS[dm[letter]]
                bad = list(und.measure_syndrome(e)) != list(dfm.measure_syndrome(de)) or \
                    list(und.logical_errors(e)) != list(dfm.logical_errors(de))
            elif 'noise' in oid:
                from fractions import Fraction
                p, rx, ry = (float(Fraction(w[k])) for k in ('p', 'rx', 'ry'))
                rz = 1 - rx - ry
                m0 = PauliErrorModel(rx, ry, rz)
                m1 = PauliErrorModel(rx, ry, rz, deformation_name=name, deformation_kwargs=kw)
                u = dict(zip('IXYZ', m0.probability_distribution(und, p)))
                dd = dict(zip('IXYZ', m1.probability_distribution(und, p)))
                spec = {'I': 1 - p, 'X': rx * p, 'Y': ry * p, 'Z': rz * p}
                for i in range(n):
                    dm = und.get_deformation(qc[i], name, **kw)
                    for s in 'IXYZ':
                        src = s if s == 'I' else dm[s]
                        if abs(dd[s][i] - spec[src]) > 1e-12 or abs(u[s][i] - spec[s]) > 1e-12:
                            bad = True
            elif 'history' in oid:
                obj = getattr(pc, cls_name)(*size)
                for kind, a1, a2 in w['history']:
                    if kind == 'deform':
                        obj.deform(a1, **({'deformation_axis': a2} if a2 not in (None, 'None') else {}))
                    elif a1 == 'logicals':
                        obj.logicals_x, obj.logicals_z
                    elif a1 == 'Hx':
                        if obj.is_css:
                            obj.Hx, obj.Hz
                    else:
                        getattr(obj, a1)
                obj.deform(name, **kw)
                obj.stabilizer_matrix, obj.logicals_x, obj.logicals_z     # raises -> reproduced
                if 'error' in w:
                    e = np.array(w['error'], dtype=np.uint8)
                    bad = list(obj.measure_syndrome(e)) != list(dfm.measure_syndrome(e)) or \
                        list(obj.logical_errors(e)) != list(dfm.logical_errors(e))
            else:
                bad = True      # ground facts are recomputed on the real objects by the worker
    except Exception as ex:
        print('exception on replay:', type(ex).__name__, ex)
        bad = True
    print('REPLAY', 'reproduced' if bad else 'not-reproduced', oid, cfg)
    return 0


def configs(tier):
    out = [c for c in common.code_configs(tier, deformed=True, max_n=100 if tier == 'quick' else 300)
           if '/' in c]
    out += ['apply_deformation n=2 rows=0', 'apply_deformation n=3 rows=2']
    if tier != 'quick':
        out += ['apply_deformation n=4 rows=0', 'apply_deformation n=4 rows=3']
    return out


def main(argv=None):
    a = hz.std_args(argv)
    if a.replay:
        return replay(a.replay)
    t0 = time.time()
    cfgs = common.order(configs(a.tier), a.seed)
    if a.only:
        cfgs = [c for c in cfgs if a.only in c]
    res = hz.run_configs('checks.c08', 'worker', cfgs, dict(tier=a.tier), jobs=a.jobs)
    return hz.finish(
        PID, a.tier, a.seed, res, t0,
        assumptions=['floats modelled as reals (probabilities are polynomials in p, r)',
                     'D_i taken from the real get_deformation at each concrete qubit; its shape is checked '
                     'separately with a symbolic qubit location',
                     'commutation / rank preservation of deformed codes is decided by C01 on the same configs'],
        bounds=dict(configurations=len(cfgs), symbolic='qubit location; all 2n error bits; p, r_x, r_y; bsf and mask',
                    histories='all sequences of length 1 (quick) / <= 2 (thorough) over {deform(any name, any '
                              'axis), touch stabilizer_matrix, touch logicals, touch Hx/Hz} before the final deform'),
        stubs=['scipy.sparse.csr_matrix -> symx.csr_shim', 'lru_cache of probability_distribution bypassed '
               '(__wrapped__) so that symbolic arguments are not hashed into the cache'],
        outside=['histories longer than the bound', 'sizes beyond the lists'])


if __name__ == '__main__':
    sys.exit(main())
