"""C01 — every library code is a valid [[n,k]] stabilizer code.

Real functions executed symbolically: get_stabilizer (per class, incl. the wrappers installed by
StabilizerCode.deform and get_deformation), is_stabilizer, stabilizer_type, is_qubit, qubit_axis with
a *symbolic stabilizer location*; in_codespace on a symbolic error for the rank statement.
Concrete (no symbolic input): get_logicals_x/z, to_bsf, stabilizer_matrix assembly (that assembly is
tied to get_stabilizer by C02)."""
import json
import sys
import time

import numpy as np
import z3

from symx import Engine, as_sa, install, gf2
from symx import lattice as lt
from symx.core import z3_xor, z3_and, z3_or, bool_term, Bit
from symx import harness as hz
from checks import common

PID = 'C01'

# documented-as-supported rectangular sizes that are broken on the pinned tree (known findings)
# (rectangular Color488Code, repaired by 75b0adf, is part of the regular size table now)
DEFECT_CONFIGS = ['Color666ToricCode(2,3)', 'Color666ToricCode(3,2)']


def _install():
    import panqec.bpauli
    import panqec.bsparse
    import panqec.codes.base._stabilizer_code as sc
    install(panqec.bpauli, panqec.bsparse, sc)


def explore_stabilizer(code, cfg, col, var='a', pid='C01'):
    """Paths of the real get_stabilizer on a symbolic location, one exploration per coordinate
    arity: [(avars, base, [(pc, [(key terms, letter)], exc)])]."""
    groups = {}
    for c in code.stabilizer_coordinates:
        groups.setdefault(len(c), []).append(c)
    out = []
    for dim, coords in sorted(groups.items()):
        eng = Engine(name=f'{cfg}#stab{dim}', max_paths=5000)
        with eng:
            a = lt.sym_location(eng, f'{var}{dim}_', coords, code.stabilizer_index)

            def fn():
                return lt.canonical(code.get_stabilizer(a))
            paths = eng.explore(fn)
        col.absorb(eng)
        avars = [c.t for c in a]
        ps = []
        for p in paths:
            if p.exc is not None:
                ps.append((p.pc, None, p.exc))
            else:
                # where the path condition pins a location variable (realised paths), fold the value
                # into the key terms so that later equalities between keys are decided syntactically
                pins = []
                for t in p.pc:
                    if z3.is_eq(t) and z3.is_int_value(t.arg(1)) and any(t.arg(0).eq(v) for v in avars):
                        pins.append((t.arg(0), t.arg(1)))
                ent = []
                for k, v in p.value:
                    ks = lt.key_terms(k)
                    if pins:
                        ks = [z3.simplify(z3.substitute(x, *pins)) for x in ks]
                    ent.append((ks, v))
                ps.append((p.pc, ent, None))
        out.append((avars, list(eng.base), ps, len(coords)))
        validate_encoding(code, cfg, col, avars, ps, coords, pid=pid)
    return out


def validate_encoding(code, cfg, col, avars, ps, coords, cap=20000, pid='C01'):
    """Translation validation of the symbolic exploration: every (or, beyond `cap` substitutions, a
    deterministic sample of) concrete stabilizer location is substituted into the path conditions --
    exactly one path must hold -- and into that path's key terms; the resulting operator must be what the
    REAL get_stabilizer of a fresh, unshadowed object returns there.  A mismatch means the encoding (proxies,
    shadows, hashing of symbolic keys) misrepresents the code: harness error, never a verdict."""
    import random
    from symx.core import HarnessError
    fresh = common.make_code(cfg)
    locs = list(coords)
    if len(locs) * max(1, len(ps)) > cap:
        locs = random.Random(len(locs)).sample(locs, max(8, cap // max(1, len(ps))))
    n_ok = 0
    for loc in locs:
        sub = [(v, z3.IntVal(int(x))) for v, x in zip(avars, loc)]
        hit = [i for i, (pc_, ent, exc) in enumerate(ps)
               if z3.is_true(z3.simplify(z3.substitute(z3_and(pc_), *sub)))]
        if len(hit) != 1:
            raise HarnessError(f'{cfg}: {len(hit)} paths hold at stabilizer location {loc} (expected exactly 1)')
        pc_, ent, exc = ps[hit[0]]
        try:
            want = {tuple(int(y) for y in q): p_ for q, p_ in fresh.get_stabilizer(tuple(loc)).items()}
            wexc = None
        except Exception as e:          # noqa
            want, wexc = None, e
        if exc is not None or wexc is not None:
            if type(exc) is not type(wexc):
                raise HarnessError(f'{cfg}: at {loc} the symbolic path ends with {type(exc).__name__}, the real '
                                   f'call with {type(wexc).__name__}')
            n_ok += 1
            continue
        got = {}
        for ks, letter in ent:
            key = tuple(z3.simplify(z3.substitute(k, *sub)).as_long() for k in ks)
            if key in got:
                raise HarnessError(f'{cfg}: duplicate key {key} in the canonical symbolic operator at {loc}')
            got[key] = letter
        if got != want:
            # before blaming the encoding: is the REAL function a function of the location at all?  (a second
            # call on the same object, and a call on another fresh object, must return the same operator)
            again = {tuple(int(y) for y in q): p_ for q, p_ in fresh.get_stabilizer(tuple(loc)).items()}
            other = {tuple(int(y) for y in q): p_ for q, p_ in common.make_code(cfg).get_stabilizer(tuple(loc)).items()}
            if again != want or other != want:
                col.record(f'{pid}/get_stabilizer/is-a-function-of-the-location', 'sat', 0, True,
                           dict(impure=True, a=[int(x) for x in loc]),
                           f'two calls of the real get_stabilizer at {tuple(loc)} return {want} and {again} '
                           f'(another fresh object: {other})')
                return
            raise HarnessError(f'{cfg}: symbolic get_stabilizer at {loc} gives {got}, the real one {want}')
        n_ok += 1
    col.stats['encoding_validated_locations'] = col.stats.get('encoding_validated_locations', 0) + n_ok


def keys_equal(ka, kb):
    """z3 Bool 'coordinate tuples equal', decided in Python when both are numerals."""
    if len(ka) != len(kb):
        return None
    ts = []
    for x, y in zip(ka, kb):
        if z3.is_int_value(x) and z3.is_int_value(y):
            if x.as_long() != y.as_long():
                return None
            continue
        ts.append(x == y)
    return z3_and(ts)


def used_then_deformed_differs(cfg, Hr, LX, LZ):
    """Names of the matrices of (construct; use; deform) that differ from the given rows."""
    import panqec.codes as pc
    cls, size, name, axis = common.parse_cfg(cfg)
    c2 = getattr(pc, cls)(*size)
    c2.n, c2.k, c2.d, c2.stabilizer_matrix, c2.logicals_x, c2.logicals_z
    if c2.is_css:
        c2.Hx, c2.Hz
    c2.deform(name, **({'deformation_axis': axis} if axis else {}))
    out = []
    for nm, want, got in (('stabilizer_matrix', Hr, c2.stabilizer_matrix), ('logicals_x', LX, c2.logicals_x),
                          ('logicals_z', LZ, c2.logicals_z)):
        if gf2.rows_of(got) != want:
            out.append(nm)
    fresh = common.make_code(cfg)
    for nm in ('n', 'k', 'd', 'is_css'):
        if getattr(c2, nm) != getattr(fresh, nm):
            out.append(nm)
    return out


def worker(cfg, tier='quick'):
    _install()
    import panqec.codes as pc
    from panqec.codes import StabilizerCode
    col = hz.Collector(cfg, timeout_ms=60000 if tier == 'quick' else 240000)
    try:
        code = common.make_code(cfg)
        n, k = code.n, code.k
        H = code.stabilizer_matrix
        Hr, LX, LZ = gf2.rows_of(H), gf2.rows_of(code.logicals_x), gf2.rows_of(code.logicals_z)
        lx_ops, lz_ops = code.get_logicals_x(), code.get_logicals_z()
    except Exception as ex:
        col.record('C01/constructible', 'sat', 0, True, dict(construct=True),
                   f'building the code raises {type(ex).__name__}: {ex}')
        return col.result()
    cls = type(code)
    col.encoded(cls.get_stabilizer, cls.stabilizer_type, cls.qubit_axis, cls.get_logicals_x,
                cls.get_logicals_z, StabilizerCode.is_stabilizer, StabilizerCode.is_qubit,
                StabilizerCode.deform, StabilizerCode.in_codespace, StabilizerCode.to_bsf)
    if code.is_deformed:
        col.encoded(cls.get_deformation)
    lt.symbolize(code)
    sw = lambda v: gf2.swap_halves(v, n)

    groups = explore_stabilizer(code, cfg, col)

    def wit_of(vs):
        return lambda m: [m.eval(v, model_completion=True).as_long() for v in vs]

    G = []
    for avars, base, paths, ncoords in groups:
        bvars = [z3.Int(str(v).replace('a', 'b', 1)) for v in avars]
        ren = list(zip(avars, bvars))
        base_b = [z3.substitute(t, *ren) for t in base]
        wit_a = lambda m, avars=avars: dict(a=wit_of(avars)(m))
        good = []
        for pc_, ent, exc in paths:
            if exc is not None:
                r, m, dt = col.solve(base + pc_)
                col.record('C01/get_stabilizer/no-exception', r, dt, True, wit_a(m) if m else None,
                           f'{type(exc).__name__}: {exc}')
            else:
                good.append((pc_, ent))
        col.prove(f'C01/get_stabilizer/paths-cover-all-locations/arity{len(avars)}', base,
                  z3.Not(z3_or([z3_and(pc_) for pc_, _, _ in paths])), wit_a,
                  f'{len(paths)} paths over {ncoords} stabilizer locations')
        renamed = []
        for pc_, ent in good:
            pcb = [z3.substitute(t, *ren) for t in pc_]
            entb = [([z3.substitute(t, *ren) for t in ks], v) for ks, v in ent]
            renamed.append((pcb, entb))
        G.append(dict(avars=avars, bvars=bvars, base=base, base_b=base_b, good=good, renamed=renamed,
                      wit_a=wit_a))
        col.reach(f'C01/reach/some-location/arity{len(avars)}',
                  base + good[0][0] if good else base + [z3.BoolVal(False)])

    # (i-a) every pair of stabilizer generators commutes: symbolic locations a, b
    for ga in G:
        for gb in G:
            wit_ab = lambda m, ga=ga, gb=gb: dict(a=wit_of(ga['avars'])(m), b=wit_of(gb['bvars'])(m))
            for i, (pca, enta) in enumerate(ga['good']):
                alts = []
                for pcb, entb in gb['renamed']:
                    terms = []
                    for ka, la in enta:
                        for kb, lb in entb:
                            if lt.anticommute(la, lb):
                                t = keys_equal(ka, kb)
                                if t is not None:
                                    terms.append(t)
                    if terms:
                        alts.append(z3_and(pcb + [z3_xor(terms)]))
                col.prove(f'C01/stabilizers-commute/arity{len(ga["avars"])}x{len(gb["avars"])}/path{i}',
                          ga['base'] + gb['base_b'] + pca, z3_or(alts), wit_ab,
                          'odd overlap of anticommuting letters between get_stabilizer(a) and '
                          'get_stabilizer(b); a on this path, b arbitrary')

    # (i-b) every logical commutes with every stabilizer: symbolic location a, concrete logical
    for name, ops in (('X', lx_ops), ('Z', lz_ops)):
        for j, lop in enumerate(ops):
            for g in G:
                alts = []
                for pca, enta in g['good']:
                    terms = []
                    for ka, la in enta:
                        for q, lq in lop.items():
                            if lt.anticommute(la, lq):
                                t = keys_equal(ka, [z3.IntVal(int(y)) for y in q])
                                if t is not None:
                                    terms.append(t)
                    if terms:
                        alts.append(z3_and(pca + [z3_xor(terms)]))
                col.prove(f'C01/logical-{name}{j}-commutes-with-stabilizers', g['base'], z3_or(alts),
                          lambda m, name=name, j=j, g=g: dict(g['wit_a'](m), logical=name, index=j))

    # (ii) canonical commutation relations of the logicals (no symbolic input: ground facts about
    # the concrete matrices the real code built, stated as ground formulas)
    bad = []
    if len(LX) != len(LZ) or len(LX) == 0:
        bad.append(('count', len(LX), len(LZ)))
    for i, a in enumerate(LX):
        for j, b in enumerate(LZ):
            if gf2.parity(a & sw(b)) != (1 if i == j else 0):
                bad.append(('XZ', i, j))
        for j, b in enumerate(LX):
            if gf2.parity(a & sw(b)):
                bad.append(('XX', i, j))
    for i, a in enumerate(LZ):
        for j, b in enumerate(LZ):
            if gf2.parity(a & sw(b)):
                bad.append(('ZZ', i, j))
    col.record('C01/logicals-canonical-commutation', 'sat' if bad else 'unsat', 0, False,
               dict(pairs=bad[:5]) if bad else None, 'ground k x k table (not a quantified statement)')

    # (ii-b) the same object must be valid when it was *used* before being deformed (derived data of the
    # undeformed code cached): the matrices of such an object are the ones verified above
    if code.is_deformed:
        bad_u = used_then_deformed_differs(cfg, Hr, LX, LZ)
        col.record('C01/object-used-before-deform-has-the-verified-matrices', 'sat' if bad_u else 'unsat',
                   0, False, dict(used_then_deformed=bad_u) if bad_u else None,
                   'ground: H, logicals_x, logicals_z, n, k, d, is_css of (construct; read k, d, H, Hx, logicals; deform) equal '
                   'those of (construct; deform)')

    # (iv) rank(H) = n - k.  Certificate (independent elimination) ...
    rank, _ = gf2.rank_and_kernel(Hr, 2 * n)
    col.record('C01/rank-certificate', 'unsat' if rank == n - k else 'sat', 0, False,
               dict(rank=rank, n=n, k=k) if rank != n - k else None,
               f'rank(H)={rank}, n-k={n - k} (certified echelon form + kernel)')
    # ... and (iii)+(iv) as one solver statement through the real in_codespace:
    #   for all e: in_codespace(e)  =>  e in span(H, LX, LZ)      [span has rank(H)+2k <= n+k; the
    #   centraliser has dimension 2n-rank(H): inclusion forces rank(H) >= n-k and, with the
    #   certificate rank([H;L]) = rank(H)+2k, independence of the logicals from the stabilizer group]
    r_all, Kall = gf2.rank_and_kernel(Hr + LX + LZ, 2 * n)
    col.record('C01/logicals-independent-of-stabilizers-certificate',
               'unsat' if r_all == rank + 2 * k else 'sat', 0, False,
               dict(rank_HL=r_all, rank_H=rank, k=k) if r_all != rank + 2 * k else None,
               f'rank([H;LX;LZ])={r_all} = rank(H)+2k')
    eb = [z3.Bool(f'e_{i}') for i in range(2 * n)]
    eng = Engine(name=cfg + '#rank')
    with eng:
        e = as_sa([Bit(b) for b in eb])
        ps = eng.explore(lambda: code.in_codespace(e))
    col.absorb(eng)
    in_span = z3_and([z3.Not(z3_xor([eb[j] for j in gf2.bits_of(v)])) for v in Kall])
    alts = [z3_and(p.pc + [z3.Not(in_span)]) for p in ps if p.exc is None and p.value is True]

    def wit_e(m):
        return dict(error=[1 if z3.is_true(m.eval(b, model_completion=True)) else 0 for b in eb])
    r, m, dt = col.solve(alts and [z3_or(alts)] or [z3.BoolVal(False)], timeout_ms=20000)
    det = 'every error with zero syndrome is a product of stabilizers and logicals (dimension count)'
    if r == 'unknown':
        fr = gf2.symplectic_frame(Hr, LX, LZ, n)
        if fr is None:
            col.record('C01/centraliser-is-generated-by-stabilizers-and-logicals', 'unknown', dt, True,
                       None, det + ' [direct query unknown, no symplectic frame]')
        else:
            S_idx, D = fr
            cols = [Hr[i] for i in S_idx] + LX + LZ + D
            vb = [z3.Bool(f'v_{j}') for j in range(2 * n)]
            eng = Engine(name=cfg + '#rank-cov')
            with eng:
                e2 = as_sa([Bit(z3_xor([vb[j] for j, c in enumerate(cols) if (c >> q) & 1]))
                            for q in range(2 * n)])
                ps2 = eng.explore(lambda: code.in_codespace(e2))
            col.absorb(eng)
            nz_d = z3_or(vb[n + k:])
            alts2 = [z3_and(p.pc + [nz_d]) for p in ps2 if p.exc is None and p.value is True]
            col.prove('C01/centraliser-is-generated-by-stabilizers-and-logicals', [],
                      z3_or(alts2) if alts2 else z3.BoolVal(False), None,
                      det + ' [after certified change of variables e=[S|LX|LZ|D]v: in_codespace => v_D=0]')
    else:
        col.record('C01/centraliser-is-generated-by-stabilizers-and-logicals', r, dt, True,
                   wit_e(m) if m else None, det)
    return col.result()


def replay(path):
    from panqec.bpauli import bs_prod
    with open(path) as f:
        d = json.load(f)
    w, oid, cfg = d['witness'], d['oid'], d['config']
    bad = False
    try:
        code = common.make_code(cfg)
        code.stabilizer_matrix
        if w.get('construct'):
            code.logicals_x, code.logicals_z
            bad = False
        elif w.get('impure'):
            a1 = dict(code.get_stabilizer(tuple(w['a'])))
            a2 = dict(code.get_stabilizer(tuple(w['a'])))
            a3 = dict(common.make_code(cfg).get_stabilizer(tuple(w['a'])))
            print('get_stabilizer', tuple(w['a']), '->', a1, '| again ->', a2, '| other object ->', a3)
            bad = a1 != a2 or a1 != a3
        elif ('a' in w and tuple(w['a']) not in code.stabilizer_index) or \
                ('b' in w and tuple(w['b']) not in code.stabilizer_index):
            print('witness location is not a stabilizer location: harness model error')
            bad = False
        elif 'stabilizers-commute' in oid:
            sa = code.to_bsf(code.get_stabilizer(tuple(w['a'])))
            sb = code.to_bsf(code.get_stabilizer(tuple(w['b'])))
            bad = bool(np.any(bs_prod(sa, sb) % 2))
        elif 'commutes-with-stabilizers' in oid:
            sa = code.to_bsf(code.get_stabilizer(tuple(w['a'])))
            L = code.logicals_x if w['logical'] == 'X' else code.logicals_z
            bad = bool(np.any(bs_prod(sa, L[w['index']]) % 2))
        elif w.get('used_then_deformed'):
            bad = bool(used_then_deformed_differs(cfg, gf2.rows_of(code.stabilizer_matrix),
                                                  gf2.rows_of(code.logicals_x), gf2.rows_of(code.logicals_z)))
        elif 'canonical' in oid:
            k = code.k
            m = bs_prod(code.logicals_x, code.logicals_z).reshape(k, k)
            bad = (not np.array_equal(m % 2, np.eye(k, dtype=int))) or \
                bool(np.any(bs_prod(code.logicals_x, code.logicals_x))) or \
                bool(np.any(bs_prod(code.logicals_z, code.logicals_z)))
        elif 'rank-certificate' in oid:
            from panqec.bpauli import brank
            bad = brank(code.stabilizer_matrix) != code.n - code.k
        elif 'independent' in oid:
            from panqec.bpauli import brank
            M = np.vstack([code.stabilizer_matrix.toarray(), code.logicals_x, code.logicals_z])
            bad = brank(M) != brank(code.stabilizer_matrix) + 2 * code.k
        elif 'centraliser' in oid:
            e = np.array(w['error'], dtype=np.uint8)
            n = code.n
            rows = gf2.rows_of(code.stabilizer_matrix) + gf2.rows_of(code.logicals_x) + \
                gf2.rows_of(code.logicals_z)
            ev = sum(1 << i for i, b in enumerate(w['error']) if b)
            bad = bool(code.in_codespace(e)) and not gf2.in_rowspace(rows, ev, 2 * n)
        elif 'no-exception' in oid:
            code.get_stabilizer(tuple(w['a']))
    except Exception as ex:
        print('exception on replay:', type(ex).__name__, ex)
        bad = True
    print('REPLAY', 'reproduced' if bad else 'not-reproduced', oid, cfg)
    return 0


def configs(tier):
    out = common.code_configs(tier, deformed=True, max_n=100 if tier == 'quick' else 600)
    return out + [c for c in DEFECT_CONFIGS if c not in out]


def main(argv=None):
    a = hz.std_args(argv)
    if a.replay:
        return replay(a.replay)
    t0 = time.time()
    cfgs = common.order(configs(a.tier), a.seed)
    if a.only:
        cfgs = [c for c in cfgs if a.only in c]
    res = hz.run_configs('checks.c01', 'worker', cfgs, dict(tier=a.tier), jobs=a.jobs)
    return hz.finish(
        PID, a.tier, a.seed, res, t0,
        assumptions=['supported size family per class as in DESIGN.md section 2',
                     'qubit_index / stabilizer_index / coordinate lists are shadowed (after the real code '
                     'built them) by SymDict / SymList so that membership with a symbolic location is a '
                     'formula; operator dicts built with symbolic keys are canonicalised (equal keys merged '
                     'by forking)',
                     'matrix-level statements use the H / logicals the real code assembled (tied to '
                     'get_stabilizer by C02)'],
        bounds=dict(symbolic='two stabilizer locations (pair commutation), one location (logicals), all 2n '
                             'error bits (rank statement)', configurations=len(cfgs),
                    sizes='quick: per class the sizes in checks/common.py; thorough: every family size with '
                          'L<=6 (2-D) / L<=4 (3-D), n<=600', deformations='every name x every axis'),
        stubs=['scipy.sparse.csr_matrix -> symx.csr_shim (rank statement only)'],
        outside=['lattice sizes beyond the lists (a parametric all-L statement is not claimed)'])


if __name__ == '__main__':
    sys.exit(main())
