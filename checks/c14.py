"""C14 — parallel runs execute exactly the requested trials per input.

Real function executed symbolically: panqec.cli.run_parallel (the click callback) once per job index,
with a SYMBOLIC number of trials; glob / os side effects / multiprocessing are recorder stubs."""
import itertools
import json
import sys
import time

import numpy as np
import z3

from symx import Engine
from symx.core import z3_and, z3_or, SymInt, term_of
from symx import harness as hz

PID = 'C14'


class Rec:
    def __init__(self):
        self.procs = []


def run_all_jobs(cli, trials, N, C, n_inputs, cpu_count=None):
    """Call the real callback for every job index; returns the list of launched process arguments."""
    rec = Rec()
    names = [f'/data/inputs/in_{i}.json' for i in range(n_inputs)]

    class Proc:
        def __init__(self, target=None, args=(), kwargs=None):
            self.target, self.args, self.kwargs = target, args, kwargs or {}

        def start(self):
            rec.procs.append(self)

        def join(self):
            pass

    class MP:
        Process = Proc

        @staticmethod
        def cpu_count():
            return cpu_count if cpu_count is not None else C

    class OsPath:
        def __getattr__(self, k):
            import os
            return getattr(os.path, k)

        def exists(self, f):
            return False

    class Os:
        path = OsPath()

        def __getattr__(self, k):
            import os
            return getattr(os, k)

        def makedirs(self, *a, **k):
            pass

        def remove(self, f):
            pass

    saved = (cli.glob, cli.multiprocessing, cli.os, cli.__dict__.get('print'))
    cli.glob = lambda pattern: list(names)
    cli.multiprocessing = MP
    cli.os = Os()
    cli.print = lambda *a, **k: None
    try:
        for job in range(1, N + 1):
            cli.run_parallel.callback('/data', trials, N, job, C, False)
    finally:
        cli.glob, cli.multiprocessing, cli.os = saved[:3]
        if saved[3] is None:
            del cli.print
        else:
            cli.print = saved[3]
    return [(p.args[0], p.args[1], p.args[2]) for p in rec.procs], names


def worker(cfg, tier='quick'):
    import panqec.cli as cli
    parts = dict(p.split('=') for p in cfg.split())
    N, C, n_inputs = int(parts['N']), int(parts['C']), int(parts['inputs'])
    tmax = int(parts.get('tmax', 10 ** 6))
    col = hz.Collector(cfg)
    col.encoded(cli.run_parallel.callback)
    n_tasks = N * C
    tpi = n_tasks // n_inputs
    tpi_last = tpi + n_tasks % n_inputs
    eng = Engine(name=cfg)
    eng.format_mode = 'placeholder'
    with eng:
        trials = eng.integer('trials', max(tpi_last, 1), tmax)
        ps = eng.explore(lambda: run_all_jobs(cli, trials, N, C, n_inputs))
    col.absorb(eng)
    T = trials.t

    def wit(m):
        return dict(trials=m.eval(T, model_completion=True).as_long(), N=N, C=C, inputs=n_inputs)
    bad_sum, bad_min, bad_files, bad_count = [], [], [], []
    for p in ps:
        if p.exc is not None:
            r, m, dt = col.solve(eng.base + p.pc)
            col.record('C14/no-exception', r, dt, True, wit(m) if m else None,
                       f'{type(p.exc).__name__}: {p.exc}')
            continue
        procs, names = p.value
        bad_count.append(z3_and(p.pc + [z3.BoolVal(len(procs) != n_tasks)]))
        per_input = {nm: [] for nm in names}
        unknown_input = False
        for inp, res, runs in procs:
            if inp not in per_input:
                unknown_input = True
            else:
                per_input[inp].append(term_of(runs, 'int'))
        sums = [z3.Sum(v) != T if v else z3.BoolVal(True) for v in per_input.values()]
        bad_sum.append(z3_and(p.pc + [z3_or(sums + [z3.BoolVal(unknown_input)])]))
        bad_min.append(z3_and(p.pc + [z3_or([term_of(r, 'int') < 1 for _, _, r in procs])]))
        files = [res for _, res, _ in procs]
        bad_files.append(z3_and(p.pc + [z3.BoolVal(len(set(files)) != len(files))]))
    col.prove('C14/launches-one-process-per-task', eng.base, z3_or(bad_count), wit)
    col.prove('C14/per-input-total-equals-requested-trials', eng.base, z3_or(bad_sum), wit,
              f'sum of n_runs over the tasks of each input file == trials, for all trials in '
              f'[{max(tpi_last, 1)}, {tmax}]')
    col.prove('C14/every-task-gets-at-least-one-trial', eng.base, z3_or(bad_min), wit)
    col.prove('C14/result-files-pairwise-distinct', eng.base, z3_or(bad_files), wit)
    col.prove('C14/paths-cover', eng.base, z3.Not(z3_or([z3_and(p.pc) for p in ps])), wit)
    col.reach('C14/reach', eng.base)
    return col.result()


def replay(path):
    import panqec.cli as cli
    with open(path) as f:
        d = json.load(f)
    w, oid = d['witness'], d['oid']
    bad = False
    try:
        procs, names = run_all_jobs(cli, w['trials'], w['N'], w['C'], w['inputs'])
        per = {nm: 0 for nm in names}
        for inp, res, runs in procs:
            per[inp] += runs
        print('per-input totals', per, 'requested', w['trials'], 'n_runs', [r for _, _, r in procs])
        if 'total' in oid:
            bad = any(v != w['trials'] for v in per.values())
        elif 'at-least-one' in oid:
            bad = any(r < 1 for _, _, r in procs)
        elif 'distinct' in oid:
            bad = len({r for _, r, _ in procs}) != len(procs)
        elif 'one-process' in oid:
            bad = len(procs) != w['N'] * w['C']
    except Exception as ex:
        print('exception on replay:', type(ex).__name__, ex)
        bad = True
    print('REPLAY', 'reproduced' if bad else 'not-reproduced', oid, d['config'])
    return 0


def configs(tier):
    out = []
    hi = 3 if tier == 'quick' else 7
    for N, C in itertools.product(range(1, hi + 1), repeat=2):
        for n_inputs in range(1, N * C + 1):
            out.append(f'N={N} C={C} inputs={n_inputs}')
    return out


def main(argv=None):
    a = hz.std_args(argv)
    if a.replay:
        return replay(a.replay)
    t0 = time.time()
    cfgs = configs(a.tier)
    if a.only:
        cfgs = [c for c in cfgs if a.only in c]
    res = hz.run_configs('checks.c14', 'worker', cfgs, dict(tier=a.tier), jobs=a.jobs)
    return hz.finish(
        PID, a.tier, a.seed, res, t0,
        assumptions=['a process started with (input, result_file, n_runs) runs exactly that',
                     'glob returns the input files in one fixed order for all nodes',
                     'precondition: N*C >= #inputs and trials >= tasks of the most loaded input'],
        bounds=dict(symbolic='trials in [tasks per input, 10^6]', enumerated=f'N, C in 1..{3 if a.tier == "quick" else 7}, '
                    'inputs in 1..N*C, all job indices 1..N'),
        stubs=['glob, os.makedirs/exists/remove, multiprocessing.Process/cpu_count, print inside panqec.cli'],
        outside=['N or C beyond the bound', 'what a launched task does with (input, result file, n_runs): that a run of n_runs >= 1 '
                 'trials ends with its result file written is decided by C12 (`C12/completed-run-is-on-disk`)'])


if __name__ == '__main__':
    sys.exit(main())
