"""C14 — parallel runs execute exactly the requested trials per input.

Real function executed symbolically: panqec.cli.run_parallel (the click callback) once per job index,
with a SYMBOLIC number of trials; glob / os side effects / multiprocessing are recorder stubs."""
import itertools
import json
import os
import sys
import time

import numpy as np
import z3

from symx import Engine
from symx.core import z3_and, z3_or, SymInt, term_of
from symx import harness as hz

PID = 'C14'


class Rec:
    def __init__(self):
        self.procs = []


def run_all_jobs(cli, trials, N, C, n_inputs, cpu_count=None):
    """Call the real callback for every job index; returns the list of launched process arguments."""
    rec = Rec()
    names = [f'/data/inputs/in_{i}.json' for i in range(n_inputs)]

    class Proc:
        def __init__(self, target=None, args=(), kwargs=None):
            self.target, self.args, self.kwargs = target, args, kwargs or {}

        def start(self):
            rec.procs.append(self)

        def join(self):
            pass

    class MP:
        Process = Proc

        @staticmethod
        def cpu_count():
            return cpu_count if cpu_count is not None else C

    class OsPath:
        def __getattr__(self, k):
            import os
            return getattr(os.path, k)

        def exists(self, f):
            return False

    class Os:
        path = OsPath()

        def __getattr__(self, k):
            import os
            return getattr(os, k)

        def makedirs(self, *a, **k):
            pass

        def remove(self, f):
            pass

    saved = (cli.glob, cli.multiprocessing, cli.os, cli.__dict__.get('print'))
    cli.glob = lambda pattern: list(names)
    cli.multiprocessing = MP
    cli.os = Os()
    cli.print = lambda *a, **k: None
    try:
        for job in range(1, N + 1):
            cli.run_parallel.callback('/data', trials, N, job, C, False)
    finally:
        cli.glob, cli.multiprocessing, cli.os = saved[:3]
        if saved[3] is None:
            del cli.print
        else:
            cli.print = saved[3]
    return [(p.args[0], p.args[1], p.args[2]) for p in rec.procs], names


def run_task(t, compressed):
    """What run_parallel launches per task: the real run_file(input, result, n_runs) in a temporary
    directory; returns {simulation index: number of trials on disk} (None: no result file)."""
    import contextlib
    import io
    import shutil
    import tempfile
    from panqec.simulation import run_file
    from panqec.utils import load_json
    root = tempfile.mkdtemp(prefix='c14task_')
    try:
        inp = os.path.join(root, 'input.json')
        spec = {'ranges': {'label': 'x', 'code': {'name': 'Toric2DCode', 'parameters': [{'L_x': 2, 'L_y': 2}]},
                           'error_model': {'name': 'PauliErrorModel', 'parameters': [{'r_x': 1 / 3, 'r_y': 1 / 3, 'r_z': 1 / 3}]},
                           'decoder': {'name': 'MatchingDecoder', 'parameters': [{}]}, 'error_rate': [0.1, 0.2]}}
        with open(inp, 'w') as f:
            json.dump(spec, f)
        out = os.path.join(root, 'results_1.json' + ('.gz' if compressed else ''))
        with contextlib.redirect_stdout(io.StringIO()), contextlib.redirect_stderr(io.StringIO()):
            run_file(inp, out, t, log_file=os.path.join(root, 'progress.txt'), verbose=False)
        if not os.path.exists(out):
            return None
        data = load_json(out)
        return {i: (len(e['results']['success']), len(e['results']['effective_error']), len(e['results']['codespace']))
                for i, e in enumerate(data)}
    finally:
        shutil.rmtree(root, ignore_errors=True)


def w_task(cfg, tier):
    """'task': every task gets a result file of its own holding its trials -- the real run_file, for a
    solver-chosen (realised) trial count (the counts run_parallel can hand out start at 1) and both output
    formats, one forked process per run."""
    from panqec.simulation import run_file
    col = hz.Collector(cfg)
    col.encoded(run_file)
    hi = 3 if tier == 'quick' else 6
    eng = Engine(name=cfg)
    with eng:
        t = eng.integer('n_runs', 1, hi)
        c = eng.integer('compressed', 0, 1)

        def fn():
            tt, cc = int(t), bool(int(c))
            return tt, cc, hz.in_forked_child(lambda: run_task(tt, cc))
        ps = eng.explore(fn)
    col.absorb(eng)
    bad, w = [], [None]
    for p in ps:
        if p.exc is not None:
            bad.append(z3_and(p.pc))
            w[0] = w[0] or dict(task=True, exception=f'{type(p.exc).__name__}: {p.exc}')
            continue
        tt, cc, got = p.value
        ok = got is not None and len(got) == 2 and all(v == (tt, tt, tt) for v in got.values())
        bad.append(z3_and(p.pc + [z3.BoolVal(not ok)]))
        if not ok and (w[0] is None or 'n_runs' not in w[0]):
            w[0] = dict(task=True, n_runs=tt, compressed=cc, on_disk=str(got))
    col.prove('C14/task/result-file-exists-and-holds-exactly-the-task-trials', eng.base, z3_or(bad), lambda m: w[0],
              f'{len(ps)} realised (n_runs in 1..{hi}, output format) runs of the real run_file, 2 simulations each')
    return col.result()


def worker(cfg, tier='quick'):
    if cfg.startswith('task'):
        return w_task(cfg, tier)
    import panqec.cli as cli
    parts = dict(p.split('=') for p in cfg.split())
    N, C, n_inputs = int(parts['N']), int(parts['C']), int(parts['inputs'])
    tmax = int(parts.get('tmax', 10 ** 6))
    col = hz.Collector(cfg)
    col.encoded(cli.run_parallel.callback)
    n_tasks = N * C
    tpi = n_tasks // n_inputs
    tpi_last = tpi + n_tasks % n_inputs
    eng = Engine(name=cfg)
    eng.format_mode = 'placeholder'
    with eng:
        trials = eng.integer('trials', max(tpi_last, 1), tmax)
        ps = eng.explore(lambda: run_all_jobs(cli, trials, N, C, n_inputs))
    col.absorb(eng)
    T = trials.t

    def wit(m):
        return dict(trials=m.eval(T, model_completion=True).as_long(), N=N, C=C, inputs=n_inputs)
    bad_sum, bad_min, bad_files, bad_count = [], [], [], []
    for p in ps:
        if p.exc is not None:
            r, m, dt = col.solve(eng.base + p.pc)
            col.record('C14/no-exception', r, dt, True, wit(m) if m else None,
                       f'{type(p.exc).__name__}: {p.exc}')
            continue
        procs, names = p.value
        bad_count.append(z3_and(p.pc + [z3.BoolVal(len(procs) != n_tasks)]))
        per_input = {nm: [] for nm in names}
        unknown_input = False
        for inp, res, runs in procs:
            if inp not in per_input:
                unknown_input = True
            else:
                per_input[inp].append(term_of(runs, 'int'))
        sums = [z3.Sum(v) != T if v else z3.BoolVal(True) for v in per_input.values()]
        bad_sum.append(z3_and(p.pc + [z3_or(sums + [z3.BoolVal(unknown_input)])]))
        bad_min.append(z3_and(p.pc + [z3_or([term_of(r, 'int') < 1 for _, _, r in procs])]))
        files = [res for _, res, _ in procs]
        bad_files.append(z3_and(p.pc + [z3.BoolVal(len(set(files)) != len(files))]))
    col.prove('C14/launches-one-process-per-task', eng.base, z3_or(bad_count), wit)
    col.prove('C14/per-input-total-equals-requested-trials', eng.base, z3_or(bad_sum), wit,
              f'sum of n_runs over the tasks of each input file == trials, for all trials in '
              f'[{max(tpi_last, 1)}, {tmax}]')
    col.prove('C14/every-task-gets-at-least-one-trial', eng.base, z3_or(bad_min), wit)
    col.prove('C14/result-files-pairwise-distinct', eng.base, z3_or(bad_files), wit)
    col.prove('C14/paths-cover', eng.base, z3.Not(z3_or([z3_and(p.pc) for p in ps])), wit)
    col.reach('C14/reach', eng.base)
    return col.result()


def replay(path):
    import panqec.cli as cli
    with open(path) as f:
        d = json.load(f)
    w, oid = d['witness'], d['oid']
    bad = False
    if w.get('task'):
        if 'n_runs' in w:
            got = run_task(w['n_runs'], w['compressed'])
            print('n_runs', w['n_runs'], 'compressed', w['compressed'], 'on disk:', got)
            bad = got is None or len(got) != 2 or any(v != (w['n_runs'],) * 3 for v in got.values())
        else:
            print(w.get('exception'))
            res = worker(d['config'])
            bad = any(o['oid'] == oid and o['verdict'] == 'sat' for o in res['obs'])
        print('REPLAY', 'reproduced' if bad else 'not-reproduced', oid, d['config'])
        return 0
    try:
        procs, names = run_all_jobs(cli, w['trials'], w['N'], w['C'], w['inputs'])
        per = {nm: 0 for nm in names}
        for inp, res, runs in procs:
            per[inp] += runs
        print('per-input totals', per, 'requested', w['trials'], 'n_runs', [r for _, _, r in procs])
        if 'total' in oid:
            bad = any(v != w['trials'] for v in per.values())
        elif 'at-least-one' in oid:
            bad = any(r < 1 for _, _, r in procs)
        elif 'distinct' in oid:
            bad = len({r for _, r, _ in procs}) != len(procs)
        elif 'one-process' in oid:
            bad = len(procs) != w['N'] * w['C']
    except Exception as ex:
        print('exception on replay:', type(ex).__name__, ex)
        bad = True
    print('REPLAY', 'reproduced' if bad else 'not-reproduced', oid, d['config'])
    return 0


def configs(tier):
    out = ['task']
    hi = 3 if tier == 'quick' else 7
    for N, C in itertools.product(range(1, hi + 1), repeat=2):
        for n_inputs in range(1, N * C + 1):
            out.append(f'N={N} C={C} inputs={n_inputs}')
    return out


def main(argv=None):
    a = hz.std_args(argv)
    if a.replay:
        return replay(a.replay)
    t0 = time.time()
    cfgs = configs(a.tier)
    if a.only:
        cfgs = [c for c in cfgs if a.only in c]
    res = hz.run_configs('checks.c14', 'worker', cfgs, dict(tier=a.tier), jobs=a.jobs)
    return hz.finish(
        PID, a.tier, a.seed, res, t0,
        assumptions=['a process started with (input, result_file, n_runs) runs exactly that',
                     'glob returns the input files in one fixed order for all nodes',
                     'precondition: N*C >= #inputs and trials >= tasks of the most loaded input'],
        bounds=dict(symbolic='trials in [tasks per input, 10^6]', enumerated=f'N, C in 1..{3 if a.tier == "quick" else 7}, '
                    'inputs in 1..N*C, all job indices 1..N'),
        stubs=['glob, os.makedirs/exists/remove, multiprocessing.Process/cpu_count, print inside panqec.cli'],
        outside=['N or C beyond the bound', 'what a launched task does with (input, result file, n_runs): that a run of n_runs >= 1 '
                 'trials ends with its result file written is decided by C12 (`C12/completed-run-is-on-disk`)'])


if __name__ == '__main__':
    sys.exit(main())
