"""C07 — the Pauli noise model is the stated i.i.d. channel and is sampled faithfully.

Real functions executed symbolically: PauliErrorModel.probability_distribution (symbolic p, r; incl.
the per-qubit deformation loop through the real get_deformation), fast_choice (symbolic uniform
variate, arbitrary distribution), generate + pauli_to_bsf (symbolic variates), get_weights,
BeliefPropagationOSDDecoder.decode prior assembly and update_probabilities (ldpc stubbed)."""
import json
import sys
import time
from fractions import Fraction

import numpy as np
import z3

from symx import Engine, as_sa, install, NP
from symx.core import z3_and, z3_or, bool_term, Bit, SymReal, SymInt, term_of, model_frac, uf
from symx import harness as hz
from symx.stubs import SymRng, ForbiddenRng, OsdStub
from checks import common

PID = 'C07'


def _install():
    import panqec.bpauli
    import panqec.bsparse
    import panqec.codes.base._stabilizer_code as sc
    import panqec.error_models._pauli_error_model as pem
    import panqec.error_models._base_error_model as bem
    import panqec.decoders.belief_propagation.bposd_decoder as bpd
    install(panqec.bpauli, panqec.bsparse, sc, pem, bem, bpd)
    return pem, bem, bpd


def arbitrary_distribution(n, stem='q'):
    Q = {s: [z3.Real(f'{stem}{s}_{i}') for i in range(n)] for s in 'IXYZ'}
    base = []
    for i in range(n):
        base += [Q[s][i] >= 0 for s in 'IXYZ']
        base.append(Q['I'][i] + Q['X'][i] + Q['Y'][i] + Q['Z'][i] == 1)
    return Q, base


def interval_spec(u, qs, letter):
    """u falls in the consecutive interval of `letter` (order I, X, Y, Z) of lengths qs."""
    lo = z3.RealVal(0)
    for s in 'IXYZ':
        hi = lo + qs[s]
        if s == letter:
            # closed interval: boundary points have measure zero, so `<` vs `<=` in the sampler is not
            # a property violation here; the exact end-point behaviour is pinned by the p=0 / p=1 runs
            return z3.And(u >= lo, u <= hi)
        lo = hi
    raise ValueError(letter)


def wit_reals(m, terms):
    return {str(t): str(model_frac(m, t)) for t in terms}


# ----------------------------------------------------------------------------------------------
def w_dist(cfg, tier):
    """probability_distribution: cells are (1-p, p r_sigma) permuted by the deformation; >= 0; sum 1."""
    pem, bem, bpd = _install()
    import panqec.codes as pc
    PauliErrorModel = pem.PauliErrorModel
    cfg0 = cfg.split(' ', 1)[1]
    cls_name, size, name, axis = common.parse_cfg(cfg0)
    kw = {'deformation_axis': axis} if axis else {}
    code = getattr(pc, cls_name)(*size)
    n = code.n
    col = hz.Collector(cfg)
    col.encoded(PauliErrorModel.probability_distribution)
    qc = list(code.qubit_coordinates)
    dmaps = [code.get_deformation(q, name, **kw) if name else {s: s for s in 'XYZ'} for q in qc]
    eng = Engine(name=cfg)
    with eng:
        p_ = eng.real('p', 0, 1)
        rx, ry = eng.real('rx', 0, 1), eng.real('ry', 0, 1)
        rz = SymReal(1 - rx.t - ry.t)
        eng.assume_base(rz.t >= 0)

        def fn():
            m1 = PauliErrorModel.__new__(PauliErrorModel)
            m1._direction, m1._deformation_name, m1._deformation_kwargs = (rx, ry, rz), name, dict(kw)
            return PauliErrorModel.probability_distribution.__wrapped__(m1, code, p_)
        ps = eng.explore(fn)
    col.absorb(eng)
    spec = {'I': 1 - p_.t, 'X': rx.t * p_.t, 'Y': ry.t * p_.t, 'Z': rz.t * p_.t}
    b_cells, b_sum, b_neg, b_shape = [], [], [], []
    for p in ps:
        if p.exc is not None:
            col.record('C07/probability_distribution/no-exception', 'sat', 0, True, None, str(p.exc))
            continue
        d = dict(zip('IXYZ', p.value))
        ok_shape = len(p.value) == 4 and all(np.asarray(v).shape == (n,) for v in p.value)
        b_shape.append(z3_and(p.pc + [z3.BoolVal(not ok_shape)]))
        if not ok_shape:
            continue
        dc, ds, dn = [], [], []
        for i in range(n):
            tot = 0
            for s in 'IXYZ':
                src = s if s == 'I' else dmaps[i][s]
                c = term_of(d[s][i], 'real')
                dc.append(z3.simplify(c - spec[src], som=True) != 0)
                dn.append(c < 0)
                tot = tot + c
            ds.append(z3.simplify(tot - 1, som=True) != 0)
        b_cells.append(z3_and(p.pc + [z3_or(dc)]))
        b_sum.append(z3_and(p.pc + [z3_or(ds)]))
        b_neg.append(z3_and(p.pc + [z3_or(dn)]))
    w = lambda m: dict(p=str(model_frac(m, p_.t)), rx=str(model_frac(m, rx.t)), ry=str(model_frac(m, ry.t)))
    col.prove('C07/probability_distribution/shape', eng.base, z3_or(b_shape), w)
    col.prove('C07/probability_distribution/cells-are-(1-p,p.r)-permuted-by-deformation', eng.base,
              z3_or(b_cells), w, 'polynomial identity in (p, r_x, r_y) per qubit and letter')
    col.prove('C07/probability_distribution/sums-to-one', eng.base, z3_or(b_sum), w)
    col.prove('C07/probability_distribution/non-negative', eng.base, z3_or(b_neg), w, timeout_ms=30000)
    return col.result()


def w_fast_choice(cfg, tier):
    pem, bem, bpd = _install()
    col = hz.Collector(cfg)
    col.encoded(pem.fast_choice)
    Q, base = arbitrary_distribution(1)
    q = {s: Q[s][0] for s in 'IXYZ'}
    for mode in ('rng', 'module-random'):
        eng = Engine(name=f'{cfg}#{mode}')
        with eng:
            def fn():
                rng = SymRng()
                probs = [SymReal(q[s]) for s in 'IXYZ']
                if mode == 'rng':
                    r = pem.fast_choice(('I', 'X', 'Y', 'Z'), probs, rng=rng)
                else:
                    old = pem.random
                    pem.random = rng            # the module-level ``random`` the fallback uses
                    try:
                        r = pem.fast_choice(('I', 'X', 'Y', 'Z'), probs)
                    finally:
                        pem.random = old
                return r, [d.t for d in rng.draws]
            ps = eng.explore(fn)
        col.absorb(eng)
        bad, cover = [], []
        uvars = set()
        for p in ps:
            if p.exc is not None:
                col.record('C07/fast_choice/no-exception', 'sat', 0, True, None, str(p.exc))
                continue
            letter, draws = p.value
            if len(draws) != 1 or letter not in 'IXYZ':
                bad.append(z3_and(p.pc))
                continue
            u = draws[0]
            uvars.add(u)
            bad.append(z3_and(p.pc + [z3.Not(interval_spec(u, q, letter))]))
            cover.append(z3_and(p.pc))
        w = lambda m: dict(wit_reals(m, list(q.values()) + list(uvars)))
        col.prove(f'C07/fast_choice/{mode}/letter-iff-variate-in-its-consecutive-interval', base, z3_or(bad), w,
                  'returns I/X/Y/Z exactly on [0,qI), [qI,qI+qX), ... so each pre-image has the stated measure; '
                  'all u in [0,1), all distributions')
        u = list(uvars)[0] if uvars else z3.Real('u')
        col.prove(f'C07/fast_choice/{mode}/paths-cover', base + [u >= 0, u < 1],
                  z3.Not(z3_or(cover)), w)
    return col.result()


def w_generate(cfg, tier):
    """generate(): variate i decides qubit i with qubit i's probabilities; result is the BSF."""
    pem, bem, bpd = _install()
    import panqec.bpauli as bp
    PauliErrorModel = pem.PauliErrorModel
    cfg0 = cfg.split(' ', 1)[1]
    code = common.make_code(cfg0)
    n = code.n
    col = hz.Collector(cfg)
    col.encoded(PauliErrorModel.generate, pem.fast_choice, bp.pauli_to_bsf)
    Q, base = arbitrary_distribution(n)
    calls = []

    class Model(PauliErrorModel):
        def probability_distribution(self, code_, error_rate):
            calls.append((code_, error_rate))
            return tuple(as_sa([SymReal(t) for t in Q[s]]) for s in 'IXYZ')

    eng = Engine(name=cfg, max_paths=70000)
    with eng:
        def fn():
            del calls[:]
            rng = SymRng()
            old_random, old_default = pem.random, NP.__dict__.get('random')
            pem.random = ForbiddenRng('random')
            try:
                model = Model(1 / 3, 1 / 3, 1 / 3)
                e = model.generate(code, 0.25, rng=rng)
            finally:
                pem.random = old_random
            return e, [d.t for d in rng.draws], list(calls)
        ps = eng.explore(fn)
    col.absorb(eng)
    bad = []
    allu = []
    for p in ps:
        if p.exc is not None:
            r, m, dt = col.solve(base + p.pc)
            col.record('C07/generate/no-exception', r, dt, True, None, f'{type(p.exc).__name__}: {p.exc}')
            continue
        e, draws, cl = p.value
        e = np.asarray(e)
        ok = e.shape == (2 * n,) and len(draws) == n and len(cl) == 1 and cl[0][0] is code and cl[0][1] == 0.25 \
            and all(int(x) in (0, 1) for x in e)
        if not ok:
            bad.append(z3_and(p.pc))
            continue
        allu = draws
        conj = []
        for i in range(n):
            letter = {(0, 0): 'I', (1, 0): 'X', (1, 1): 'Y', (0, 1): 'Z'}[(int(e[i]), int(e[n + i]))]
            conj.append(interval_spec(draws[i], {s: Q[s][i] for s in 'IXYZ'}, letter))
        bad.append(z3_and(p.pc + [z3.Not(z3_and(conj))]))
    w = lambda m: dict(model=str(m)[:400])
    col.prove('C07/generate/qubit-i-drawn-from-its-own-distribution-by-variate-i', base, z3_or(bad), w,
              f'{len(ps)} paths (= 4^{n} outcomes): binary BSF of length 2n; exactly n draws from the supplied '
              'rng, in qubit order; distribution fetched once with (code, error_rate)')
    dom = [z3.And(u >= 0, u < 1) for u in allu]
    col.prove('C07/generate/paths-cover', base + dom, z3.Not(z3_or([z3_and(p.pc) for p in ps])), w)
    return col.result()


def w_extremes(cfg, tier):
    """p = 0 gives no error, p = 1 an error on every qubit (real probability_distribution,
    symbolic direction and variates)."""
    pem, bem, bpd = _install()
    PauliErrorModel = pem.PauliErrorModel
    cfg0 = cfg.split(' ', 1)[1]
    cls_name, size, name, axis = common.parse_cfg(cfg0)
    import panqec.codes as pc
    code = getattr(pc, cls_name)(*size)
    kw = {'deformation_axis': axis} if axis else {}
    n = code.n
    col = hz.Collector(cfg)
    col.encoded(PauliErrorModel.generate, PauliErrorModel.probability_distribution, pem.fast_choice)
    for pval in (0, 1):
        eng = Engine(name=f'{cfg}#p{pval}', max_paths=70000)
        eng.format_mode = 'placeholder'      # labels of models with symbolic directions are logging only
        with eng:
            rx, ry = eng.real('rx', 0, 1), eng.real('ry', 0, 1)
            rz = SymReal(1 - rx.t - ry.t)
            eng.assume_base(rz.t >= 0)

            def fn():
                PauliErrorModel.probability_distribution.cache_clear()
                m1 = PauliErrorModel.__new__(PauliErrorModel)
                m1._direction, m1._deformation_name, m1._deformation_kwargs = (rx, ry, rz), name, dict(kw)
                return m1.generate(code, pval, rng=SymRng())
            ps = eng.explore(fn)
        PauliErrorModel.probability_distribution.cache_clear()
        col.absorb(eng)
        bad = []
        for p in ps:
            if p.exc is not None:
                col.record('C07/extremes/no-exception', 'sat', 0, True, None, f'{type(p.exc).__name__}: {p.exc}')
                continue
            e = [int(x) for x in np.asarray(p.value)]
            hit = [e[i] or e[n + i] for i in range(n)]
            wrong = any(hit) if pval == 0 else not all(hit)
            bad.append(z3_and(p.pc + [z3.BoolVal(bool(wrong))]))
        col.prove(f'C07/generate/p={pval}-' + ('no-error' if pval == 0 else 'every-qubit-hit'), eng.base,
                  z3_or(bad), lambda m: dict(model=str(m)[:300]), f'{len(ps)} paths; all directions, all variates')
    return col.result()


def w_weights(cfg, tier):
    """get_weights: -log((m+eps)/(1-m+eps)) of the X-flip / Z-flip marginals."""
    pem, bem, bpd = _install()
    PauliErrorModel = pem.PauliErrorModel
    code = common.make_code(cfg.split(' ', 1)[1])
    n = code.n
    col = hz.Collector(cfg)
    col.encoded(bem.BaseErrorModel.get_weights)
    Q, base = arbitrary_distribution(n)

    class Model(PauliErrorModel):
        """hands out the SAME arrays on every call, as the real lru_cached probability_distribution does"""
        tables = None

        def probability_distribution(self, code_, error_rate):
            if self.tables is None:
                self.tables = tuple(as_sa([SymReal(t) for t in Q[s]]) for s in 'IXYZ')
            return self.tables
    eps = 1e-20
    eng = Engine(name=cfg)
    with eng:
        def fn():
            mdl = Model(1 / 3, 1 / 3, 1 / 3)
            first = mdl.get_weights(code, 0.1)
            second = mdl.get_weights(code, 0.1)       # a second decoder built from the same objects
            after = [[term_of(c, 'real') for c in t.cells()] for t in mdl.tables]
            return first, second, after
        ps = eng.explore(fn)
    col.absorb(eng)
    bad, bad_tab = [], []
    epsr = z3.RealVal(str(Fraction(eps)))
    runs = []
    for p in ps:
        if p.exc is not None:
            col.record('C07/get_weights/no-exception', 'sat', 0, True, None, str(p.exc))
            continue
        first, second, after = p.value
        bad_tab.append(z3_and(p.pc + [z3_or([a_ != q_ for row, s_ in zip(after, 'IXYZ') for a_, q_ in zip(row, Q[s_])])]))
        runs += [(p, first), (p, second)]
    for p, (wx, wz) in runs:
        d = [z3.BoolVal(np.asarray(wx).shape != (n,) or np.asarray(wz).shape != (n,))]
        for i in range(n):
            for cell, a, b in ((wx[i], 'X', 'Y'), (wz[i], 'Z', 'Y')):
                m_ = Q[a][i] + Q[b][i]
                c = term_of(cell, 'real')
                # expected shape: -ln(arg) with arg == (m+eps)/(1-m+eps)
                ok = False
                inner = None
                if z3.is_app(c) and c.num_args() == 1 and c.decl().kind() == z3.Z3_OP_UMINUS:
                    inner = c.arg(0)
                elif z3.is_app(c) and c.decl().kind() == z3.Z3_OP_MUL and c.num_args() == 2 \
                        and z3.is_rational_value(c.arg(0)) and c.arg(0).as_fraction() == -1:
                    inner = c.arg(1)
                if inner is not None and z3.is_app(inner) and inner.decl().name() == 'ln':
                    arg = inner.arg(0)
                    # arg * (1 - m + eps) == m + eps   (cross-multiplied, polynomial)
                    d.append(z3.Not(z3.And(1 - m_ + epsr != 0,
                                           arg * (1 - m_ + epsr) == m_ + epsr)))
                    ok = True
                if not ok:
                    d.append(z3.BoolVal(True))
        bad.append(z3_and(p.pc + [z3_or(d)]))
    # marginals below one half so the denominators are non-zero and weights positive
    dom = base + [Q['X'][i] + Q['Y'][i] < 1 for i in range(n)] + [Q['Z'][i] + Q['Y'][i] < 1 for i in range(n)]
    col.prove('C07/get_weights/are-log-likelihood-ratios-of-the-flip-marginals', dom, z3_or(bad),
              lambda m: dict(model=str(m)[:300]),
              'weights_x[i] = -ln((qX+qY+eps)/(1-(qX+qY)+eps)), weights_z[i] likewise with qZ+qY; ln uninterpreted; '
              'the first AND a second call on the same model / code / rate',
              timeout_ms=60000)
    col.prove('C07/get_weights/distribution-tables-not-altered', dom, z3_or(bad_tab), lambda m: dict(model=str(m)[:300]),
              'the arrays handed out by probability_distribution (shared with sampling and the other decoders) hold '
              'the same values after two get_weights calls')
    return col.result()


def w_matchwiring(cfg, tier):
    """cfg = 'matchwiring <code>': the weights the real MatchingDecoder hands to the matching engine, in the full
    mode and in the documented single-sector modes error_type='X' / 'Z': the X-error matcher (built on Hz) gets
    the X-flip LLRs, the Z-error matcher (built on Hx) the Z-flip LLRs, for arbitrary per-qubit channels."""
    from checks import c09
    mods = c09._install()
    md = mods['md']
    from symx.stubs import MatchStub
    code = common.make_code(cfg.split(' ', 1)[1])
    n = code.n
    col = hz.Collector(cfg)
    col.encoded(md.MatchingDecoder.__init__, mods['bem'].BaseErrorModel.get_weights)
    model, Q, base = c09.stub_model(mods['pem'], n)
    old = md.Matching
    md.Matching = MatchStub
    eng = Engine(name=cfg)
    try:
        with eng:
            def fn():
                out = {}
                for et in (None, 'X', 'Z'):
                    dec = md.MatchingDecoder(code, model, 0.1, error_type=et)
                    mx, mz = getattr(dec, 'matcher_x', None), getattr(dec, 'matcher_z', None)
                    out[str(et)] = (None if mx is None else ([term_of(c, 'real') for c in np.asarray(mx.weights).reshape(-1)], mx.H),
                                    None if mz is None else ([term_of(c, 'real') for c in np.asarray(mz.weights).reshape(-1)], mz.H))
                return out
            ps = eng.explore(fn)
            wx_true, wz_true = c09.true_weights(Q, n)
    finally:
        md.Matching = old
    col.absorb(eng)
    bad = []
    for p in ps:
        if p.exc is not None:
            col.record('C07/matching-weights/no-exception', 'sat', 0, True, None, f'{type(p.exc).__name__}: {p.exc}')
            continue
        d = []
        for et, (gx, gz) in p.value.items():
            for got, want, Hs, present in ((gx, wx_true, code.Hz, et in ('None', 'X')), (gz, wz_true, code.Hx, et in ('None', 'Z'))):
                if (got is not None) != present:
                    d.append(z3.BoolVal(True))
                    continue
                if got is None:
                    continue
                ws, H_ = got
                if len(ws) != n or (H_ != Hs).nnz:
                    d.append(z3.BoolVal(True))
                    continue
                d += [a_ != b_ for a_, b_ in zip(ws, want) if not a_.eq(b_)]
        bad.append(z3_and(p.pc + [z3_or(d)]))
    dom = base + [Q['X'][i] + Q['Y'][i] < 1 for i in range(n)] + [Q['Z'][i] + Q['Y'][i] < 1 for i in range(n)]
    col.prove('C07/matching-weights/each-sector-matcher-gets-its-own-flip-marginal-LLRs', dom, z3_or(bad),
              lambda m: dict(model=str(m)[:300]),
              "error_type None / 'X' / 'Z': matcher_x on Hz with the X-flip LLRs, matcher_z on Hx with the Z-flip LLRs")
    return col.result()


def w_bposd(cfg, tier):
    """BP-OSD priors: channel probabilities pushed into ldpc are the flip marginals in column order;
    update_probabilities is the conditional-probability formula."""
    pem, bem, bpd = _install()
    PauliErrorModel = pem.PauliErrorModel
    parts = cfg.split(' ')
    code = common.make_code(parts[1])
    channel_update = parts[2] == 'update'
    n = code.n
    col = hz.Collector(cfg)
    Dec = bpd.BeliefPropagationOSDDecoder
    col.encoded(Dec.decode, Dec.initialize_decoders, Dec.update_probabilities, Dec.get_probabilities)
    Q, base = arbitrary_distribution(n)

    class Model(PauliErrorModel):
        def probability_distribution(self, code_, error_rate):
            return tuple(as_sa([SymReal(t) for t in Q[s]]) for s in 'IXYZ')
    E = [z3.Bool(f'e_{i}') for i in range(2 * n)]
    is_css = bool(code.is_css)
    old = bpd.BpOsdDecoder
    bpd.BpOsdDecoder = OsdStub
    eng = Engine(name=cfg, max_paths=5000)
    try:
        with eng:
            def fn():
                dec = Dec(code, Model(1 / 3, 1 / 3, 1 / 3), 0.1, channel_update=channel_update)
                s = code.measure_syndrome(as_sa([Bit(b) for b in E]))
                c = dec.decode(s)
                if is_css:
                    return c, dec.x_decoder, dec.z_decoder, None
                return c, None, None, dec.decoder
            ps = eng.explore(fn)
    finally:
        bpd.BpOsdDecoder = old
    col.absorb(eng)
    mX = [Q['X'][i] + Q['Y'][i] for i in range(n)]
    mZ = [Q['Z'][i] + Q['Y'][i] for i in range(n)]
    bad_prior, bad_upd, bad_mat = [], [], []
    for p in ps:
        if p.exc is not None:
            r, m, dt = col.solve(base + p.pc)
            col.record('C07/bposd/no-exception', r, dt, True, None, f'{type(p.exc).__name__}: {p.exc}')
            continue
        c, xd, zd, fd = p.value
        if is_css:
            ok_mat = (xd.H != code.Hz).nnz == 0 and (zd.H != code.Hx).nnz == 0
            bad_mat.append(z3_and(p.pc + [z3.BoolVal(not ok_mat)]))
            if not xd.pushed or not zd.pushed:
                bad_prior.append(z3_and(p.pc))          # an engine never received its channel probabilities
                continue
            first_x, first_z = xd.pushed[0], zd.pushed[0]
            bad_prior.append(z3_and(p.pc + [z3_or([a != b for a, b in zip(first_x, mX)] +
                                                  [a != b for a, b in zip(first_z, mZ)] +
                                                  [z3.BoolVal(len(zd.pushed) != 1)])]))
            if channel_update:
                if len(xd.pushed) != 2:
                    bad_upd.append(z3_and(p.pc))
                else:
                    zc = [bool_term(x) for x in np.asarray(zd.last_out)]      # the Z decision the decoder used
                    d = []
                    for i in range(n):
                        got = xd.pushed[1][i]
                        # conditional X-flip probability given the Z decision on qubit i
                        den1 = Q['Z'][i] + Q['Y'][i]
                        den0 = 1 - Q['Z'][i] - Q['Y'][i]
                        spec_ok = z3.If(zc[i],
                                        z3.If(den1 != 0, got * den1 == Q['Y'][i], got == 0),
                                        z3.Implies(den0 != 0, got * den0 == Q['X'][i]))
                        d.append(z3.Not(spec_ok))
                    bad_upd.append(z3_and(p.pc + [z3_or(d)]))
            else:
                bad_upd.append(z3_and(p.pc + [z3.BoolVal(len(xd.pushed) != 1)]))
        else:
            ok_mat = (fd.H != code.stabilizer_matrix).nnz == 0
            bad_mat.append(z3_and(p.pc + [z3.BoolVal(not ok_mat)]))
            # column j < n of H is the X part: it detects the Z flip of qubit j -> prior mZ; then mX
            want = mZ + mX
            bad_prior.append(z3_and(p.pc + [z3_or([a != b for a, b in zip(fd.pushed[0], want)] +
                                                  [z3.BoolVal(len(fd.pushed) != 1)])]))
    # exclude the degenerate division-by-zero region for the update formula only through its guards
    w = lambda m: dict(model=str(m)[:400])
    col.prove('C07/bposd/matrices-handed-to-ldpc', base, z3_or(bad_mat), w,
              'x_decoder gets Hz, z_decoder gets Hx (CSS); full H otherwise')
    col.prove('C07/bposd/channel-probabilities-are-flip-marginals-in-column-order', base, z3_or(bad_prior), w,
              'X decoder: qX+qY; Z decoder: qZ+qY; non-CSS: [qZ+qY | qX+qY] matching H = [X part | Z part]')
    if is_css:
        col.prove('C07/bposd/conditional-update' + ('' if channel_update else '-absent-when-disabled'), base,
                  z3_or(bad_upd), w,
                  'P(X flip | Z decision) = qY/(qZ+qY) if Z-corrected else qX/(1-qZ-qY)', timeout_ms=60000)
    return col.result()


def w_cache(cfg, tier):
    """Two error models used one after the other on the same code and error rate (the real, cached
    probability_distribution): the second model must get ITS OWN distribution, and the arrays handed out
    for the first must be unchanged afterwards."""
    pem, bem, bpd = _install()
    import panqec.codes as pc
    PauliErrorModel = pem.PauliErrorModel
    parts = cfg.split(' ')
    cls_name, size, name, axis = common.parse_cfg(parts[1])
    axis2 = parts[2]
    code = getattr(pc, cls_name)(*size)
    n = code.n
    col = hz.Collector(cfg)
    col.encoded(PauliErrorModel.probability_distribution, PauliErrorModel.__init__, PauliErrorModel.label)
    qc = list(code.qubit_coordinates)
    kwA = {'deformation_axis': axis} if axis else {}
    kwB = {'deformation_axis': axis2} if axis2 != '-' else {}
    nameB = name if axis2 != 'none' else None
    dA = [code.get_deformation(q, name, **kwA) for q in qc]
    dB = [code.get_deformation(q, nameB, **kwB) if nameB else {s_: s_ for s_ in 'XYZ'} for q in qc]
    pval = 0.25
    eng = Engine(name=cfg)
    eng.format_mode = 'placeholder'
    with eng:
        rx, ry = eng.real('rx', 0, 1), eng.real('ry', 0, 1)
        rz = SymReal(1 - rx.t - ry.t)
        sx, sy = eng.real('sx', 0, 1), eng.real('sy', 0, 1)
        sz = SymReal(1 - sx.t - sy.t)
        eng.assume_base(rz.t >= 0)
        eng.assume_base(sz.t >= 0)

        def fn():
            PauliErrorModel.probability_distribution.cache_clear()
            A = PauliErrorModel.__new__(PauliErrorModel)
            A._direction, A._deformation_name, A._deformation_kwargs = (rx, ry, rz), name, dict(kwA)
            B = PauliErrorModel.__new__(PauliErrorModel)
            B._direction, B._deformation_name, B._deformation_kwargs = (sx, sy, sz), nameB, dict(kwB)
            da = A.probability_distribution(code, pval)
            snap = [list(np.asarray(v).reshape(-1)) for v in da]
            db = B.probability_distribution(code, pval)
            da2 = A.probability_distribution(code, pval)
            return snap, db, da, da2
        ps = eng.explore(fn)
    PauliErrorModel.probability_distribution.cache_clear()
    col.absorb(eng)

    def spec_for(r, dm):
        base_ = {'I': z3.RealVal(1) - z3.RealVal('1/4'), 'X': r[0].t * z3.RealVal('1/4'),
                 'Y': r[1].t * z3.RealVal('1/4'), 'Z': r[2].t * z3.RealVal('1/4')}
        return lambda i, s_: base_[s_ if s_ == 'I' else dm[i][s_]]
    sA, sB = spec_for((rx, ry, rz), dA), spec_for((sx, sy, sz), dB)
    bad_b, bad_a = [], []
    for p in ps:
        if p.exc is not None:
            r, m, dt = col.solve(eng.base + p.pc)
            col.record('C07/cache/no-exception', r, dt, True, None, f'{type(p.exc).__name__}: {p.exc}')
            continue
        snap, db, da, da2 = p.value
        d1, d2, d3 = [], [], []
        for k_, s_ in enumerate('IXYZ'):
            for i in range(n):
                d1.append(z3.simplify(term_of(db[k_][i], 'real') - sB(i, s_), som=True) != 0)
                d2.append(z3.simplify(term_of(da[k_][i], 'real') - sA(i, s_), som=True) != 0)
                d2.append(z3.simplify(term_of(da2[k_][i], 'real') - sA(i, s_), som=True) != 0)
                d2.append(z3.simplify(term_of(snap[k_][i], 'real') - sA(i, s_), som=True) != 0)
        bad_b.append(z3_and(p.pc + [z3_or(d1)]))
        bad_a.append(z3_and(p.pc + [z3_or(d2)]))
    w = lambda m: {str(v.t): str(model_frac(m, v.t)) for v in (rx, ry, sx, sy)}
    col.prove('C07/cache/second-model-gets-its-own-distribution', eng.base, z3_or(bad_b), w,
              'model B (other direction / axis / undeformed) after model A on the same code and rate; all directions')
    col.prove('C07/cache/first-model-distribution-unchanged-by-later-use', eng.base, z3_or(bad_a), w)
    return col.result()


def worker(cfg, tier='quick'):
    return {'cache': w_cache, 'dist': w_dist, 'fast_choice': w_fast_choice, 'generate': w_generate, 'extremes': w_extremes,
            'weights': w_weights, 'bposd': w_bposd, 'matchwiring': w_matchwiring}[cfg.split()[0]](cfg, tier)


def replay(path):
    with open(path) as f:
        d = json.load(f)
    # counterexamples of C07 are parameter valuations of the symbolic run; they are replayed by
    # evaluating the real functions in floating point at the model's values
    import panqec.error_models._pauli_error_model as pem
    w, oid, cfg = d['witness'], d['oid'], d['config']
    bad = False
    try:
        if cfg.startswith('fast_choice'):
            vals = {k: float(Fraction(v)) for k, v in w.items()}
            q = [vals.get(f'q{s}_0', 0.0) for s in 'IXYZ']
            u = [v for k, v in vals.items() if k.startswith('u')][0]

            class R:
                def random(self):
                    return u
            got = pem.fast_choice(('I', 'X', 'Y', 'Z'), q, rng=R())
            cum, want = 0.0, 'Z'
            for s, qq in zip('IXYZ', q):
                if cum <= u < cum + qq:
                    want = s
                    break
                cum += qq
            print('u', u, 'q', q, 'got', got, 'want', want)
            bad = got != want
        elif cfg.startswith('dist'):
            import panqec.codes as pc
            cls_name, size, name, axis = common.parse_cfg(cfg.split(' ', 1)[1])
            kw = {'deformation_axis': axis} if axis else {}
            code = getattr(pc, cls_name)(*size)
            p, rx, ry = (float(Fraction(w[k])) for k in ('p', 'rx', 'ry'))
            rz = 1 - rx - ry
            m = pem.PauliErrorModel(rx, ry, rz, deformation_name=name, deformation_kwargs=kw)
            dist = dict(zip('IXYZ', m.probability_distribution(code, p)))
            spec = {'I': 1 - p, 'X': rx * p, 'Y': ry * p, 'Z': rz * p}
            for i, qloc in enumerate(code.qubit_coordinates):
                dm = code.get_deformation(qloc, name, **kw) if name else {s: s for s in 'XYZ'}
                for s in 'IXYZ':
                    src = s if s == 'I' else dm[s]
                    if abs(dist[s][i] - spec[src]) > 1e-12 or dist[s][i] < -1e-15:
                        bad = True
                if abs(sum(dist[s][i] for s in 'IXYZ') - 1) > 1e-12:
                    bad = True
        elif cfg.startswith('cache'):
            import panqec.codes as pc
            parts = cfg.split(' ')
            cls_name, size, name, axis = common.parse_cfg(parts[1])
            axis2 = parts[2]
            kwA = {'deformation_axis': axis} if axis else {}
            kwB = {'deformation_axis': axis2} if axis2 not in ('-', 'none') else {}
            nameB = name if axis2 != 'none' else None
            vals = {k: float(Fraction(v)) for k, v in w.items()}
            ra = (vals['rx'], vals['ry'], 1 - vals['rx'] - vals['ry'])
            cands = [(vals['sx'], vals['sy'], 1 - vals['sx'] - vals['sy']), ra,
                     (ra[0] + 1e-6 if ra[0] < 0.5 else ra[0] - 1e-6, ra[1], 1 - ra[1] - (ra[0] + 1e-6 if ra[0] < 0.5 else ra[0] - 1e-6))]
            for rb in cands:       # the counterexample region is "B differs from A"; several concretisations
                code = getattr(pc, cls_name)(*size)
                A = pem.PauliErrorModel(*ra, deformation_name=name, deformation_kwargs=kwA)
                B = pem.PauliErrorModel(*rb, deformation_name=nameB, deformation_kwargs=kwB)
                A.probability_distribution(code, 0.25)
                db = dict(zip('IXYZ', B.probability_distribution(code, 0.25)))
                spec = {'I': 0.75, 'X': rb[0] * 0.25, 'Y': rb[1] * 0.25, 'Z': rb[2] * 0.25}
                for i, qloc in enumerate(code.qubit_coordinates):
                    dm = code.get_deformation(qloc, nameB, **kwB) if nameB else {s: s for s in 'XYZ'}
                    for s in 'IXYZ':
                        if abs(db[s][i] - spec[s if s == 'I' else dm[s]]) > 1e-9:
                            bad = True
                print('direction A', ra, 'direction B', rb, '->', 'wrong distribution for B' if bad else 'ok')
                if bad:
                    break
        else:
            # generate / weights / bposd counterexamples: re-run the symbolic worker's obligation on the
            # unshimmed code is not possible without the rng / ldpc stubs; re-run the worker itself in this
            # fresh interpreter and confirm the same obligation is still sat
            res = worker(cfg)
            bad = any(o['oid'] == oid and o['verdict'] == 'sat' for o in res['obs'])
    except Exception as ex:
        print('exception on replay', type(ex).__name__, ex)
        bad = True
    print('REPLAY', 'reproduced' if bad else 'not-reproduced', oid, cfg)
    return 0


def configs(tier):
    out = ['fast_choice']
    dist = []
    for cls in common.CLASSES:
        s = common.sizes(cls, 'quick')[0]
        for nm, ax in common.deformations(cls):
            dist.append(common.cfg_name(cls, s, nm, ax))
    if tier != 'quick':
        dist = common.code_configs('quick', deformed=True, max_n=120)
    out += [f'dist {c}' for c in dist]
    out += ['cache Toric2DCode(2,2)/XZZX/x y', 'cache Toric2DCode(2,2)/XZZX/x x', 'cache Planar2DCode(2,2)/XZZX/y none',
            'cache Toric3DCode(2,2,2)/XZZX/z x']
    gen = ['RotatedPlanar2DCode(2,2)'] + (['Planar2DCode(2,2)', 'RotatedPlanar2DCode(2,3)'] if tier != 'quick' else [])
    out += [f'generate {c}' for c in gen]
    out += ['extremes RotatedPlanar2DCode(2,2)/XZZX/x', 'extremes Planar2DCode(2,2)/XY']
    ws = ['Toric2DCode(2,2)', 'RotatedPlanar2DCode(3,3)'] + (['Planar2DCode(4,3)', 'Toric3DCode(2,2,2)'] if tier != 'quick' else [])
    out += [f'weights {c}' for c in ws]
    out += ['matchwiring Toric2DCode(2,2)', 'matchwiring RotatedPlanar2DCode(2,3)']
    bp = ['RotatedPlanar2DCode(2,2)', 'Toric2DCode(2,2)', 'RotatedPlanar2DCode(2,2)/XZZX/x', 'Toric2DCode(2,2)/XY']
    if tier != 'quick':
        bp += ['Planar2DCode(2,3)', 'Toric3DCode(2,2,2)/XZZX/z', 'XCubeCode(2,2,2)', 'RhombicPlanarCode(2,2,2)/Checkerboard_XZZX']
    for c in bp:
        out.append(f'bposd {c} noupdate')
    # the conditional update forks three ways per qubit: keep n <= 5
    for c in ['RotatedPlanar2DCode(2,2)', 'Planar2DCode(2,2)'] + (['RotatedPlanar2DCode(2,3)'] if tier != 'quick' else []):
        out.append(f'bposd {c} update')
    return out


def main(argv=None):
    a = hz.std_args(argv)
    if a.replay:
        return replay(a.replay)
    t0 = time.time()
    cfgs = common.order(configs(a.tier), a.seed)
    if a.only:
        cfgs = [c for c in cfgs if a.only in c]
    res = hz.run_configs('checks.c07', 'worker', cfgs, dict(tier=a.tier), jobs=a.jobs)
    return hz.finish(
        PID, a.tier, a.seed, res, t0,
        assumptions=['floats are reals: the cumulative-sum fallback `return options[-1]` (reached only through '
                     'rounding) is outside', 'rng.random() is i.i.d. uniform on [0,1): every draw is a fresh '
                     'symbolic real; nothing else is assumed about the generator',
                     'consumers (fast_choice, generate, get_weights, BP-OSD priors) run on ARBITRARY per-qubit '
                     'distributions supplied by a stub; the producer probability_distribution is verified on its '
                     'own (linearity discipline)', 'ln is an uninterpreted function',
                     'ldpc.BpOsdDecoder replaced by OsdStub (records what is pushed; returns a solution of H c = s)'],
        bounds=dict(dist='every class at its smallest family size x every deformation name/axis (quick); all '
                         'quick-tier C01 configs (thorough)', generate='n = 4 (quick), n <= 6 (thorough): all 4^n outcomes',
                    bposd='2-D codes with n <= 8 incl. non-CSS (deformed) ones'),
        stubs=['numpy Generator -> SymRng', 'random module -> ForbiddenRng when an rng is supplied',
               'ldpc.BpOsdDecoder -> OsdStub', 'PauliErrorModel.probability_distribution -> arbitrary distributions '
               '(consumer runs only)'],
        outside=['statistical quality of numpy\'s generator', 'float rounding', 'MBP decoder priors'])


if __name__ == '__main__':
    sys.exit(main())
