"""C09 — matching is exactly minimum-weight; correctable sets are always corrected.

Real functions executed symbolically: MatchingDecoder.__init__/decode, BaseErrorModel.get_weights,
StabilizerCode.extract_x/z_syndrome, Hx, Hz, measure_syndrome, is_success — PyMatching replaced by
MatchStub (a solution of H c = s that is minimum-weight FOR THE MATRIX AND WEIGHTS IT WAS GIVEN; the
optimality clause is instantiated at the competitor each query names)."""
import itertools
import json
import sys
import time
from fractions import Fraction

import numpy as np
import z3

from symx import Engine, as_sa, install, gf2
from symx.core import z3_xor, z3_and, z3_or, bool_term, Bit, SymReal, term_of, model_frac
from symx.stubs import MatchStub
from symx import harness as hz
from checks import common
from checks.c05 import _install, stub_model, syndrome_spec

PID = 'C09'
EPS = 1e-20


def true_weights(Q, n):
    """LLR weights of the X-flip / Z-flip marginals, built with the same proxy operations the
    library uses (ln uninterpreted)."""
    wx, wz = [], []
    for i in range(n):
        for out, a in ((wx, 'X'), (wz, 'Z')):
            m = SymReal(Q[a][i]) + SymReal(Q['Y'][i])
            out.append(term_of(-(((m + EPS) / (1 - m + EPS)).log()), 'real'))
    return wx, wz


def w_optimal(cfg, tier):
    """cfg = 'optimal <code> [X|Z]': full decoder, or the documented single-sector modes error_type='X' / 'Z'
    (only that sector is decoded; its correction must be minimum-weight under ITS flip marginal)."""
    mods = _install()
    md = mods['md']
    code = common.make_code(cfg.split(' ')[1])
    etype = cfg.split(' ')[2] if len(cfg.split(' ')) > 2 else None
    n = code.n
    col = hz.Collector(cfg)
    col.encoded(md.MatchingDecoder.__init__, md.MatchingDecoder.decode, mods['bem'].BaseErrorModel.get_weights)
    model, Q, base = stub_model(mods['pem'], n)
    E = [z3.Bool(f'e_{i}') for i in range(2 * n)]
    CX = [z3.Bool(f'cx_{i}') for i in range(n)]       # competitor corrections
    CZ = [z3.Bool(f'cz_{i}') for i in range(n)]
    old = md.Matching
    md.Matching = MatchStub
    eng = Engine(name=cfg)
    try:
        with eng:
            def fn():
                dec = md.MatchingDecoder(code, model, 0.1, error_type=etype)
                s = code.measure_syndrome(as_sa([Bit(b) for b in E]))
                return dec.decode(s), dec
            ps = eng.explore(fn)
            wx_true, wz_true = true_weights(Q, n)
    finally:
        md.Matching = old
    col.absorb(eng)
    s_spec = syndrome_spec(code, E)
    zi, xi = np.asarray(code.z_indices), np.asarray(code.x_indices)
    Hz_rows = [list(r.indices) for r in code.Hz.tocsr()] if code.Hz.shape[0] else []
    Hx_rows = [list(r.indices) for r in code.Hx.tocsr()] if code.Hx.shape[0] else []
    sz = [s_spec[i] for i in range(len(s_spec)) if zi[i]]
    sx = [s_spec[i] for i in range(len(s_spec)) if xi[i]]
    same_x = z3_and([z3_xor([CX[j] for j in row]) == t for row, t in zip(Hz_rows, sz)])   # X errors <- Z checks
    same_z = z3_and([z3_xor([CZ[j] for j in row]) == t for row, t in zip(Hx_rows, sx)])
    wsum = lambda w, bits: z3.Sum([z3.If(b, wi, 0) for b, wi in zip(bits, w)])

    def wit(m):
        g = lambda bs: [1 if z3.is_true(m.eval(b, model_completion=True)) else 0 for b in bs]
        return dict(error=g(E), cx=g(CX), cz=g(CZ),
                    q={s: [str(model_frac(m, t)) for t in Q[s]] for s in 'IXYZ'})
    bad_x, bad_z, bad_wire = [], [], []
    for p in ps:
        if p.exc is not None:
            r, m, dt = col.solve(base + p.pc)
            col.record('C09/matching/no-exception', r, dt, True, wit(m) if m else None, str(p.exc))
            continue
        corr, dec = p.value
        cells = [bool_term(c) for c in np.asarray(corr).reshape(-1)]
        mx, mz = getattr(dec, 'matcher_x', None), getattr(dec, 'matcher_z', None)
        wired = (etype == 'Z' or (mx is not None and (mx.H != code.Hz).nnz == 0)) and \
            (etype == 'X' or (mz is not None and (mz.H != code.Hx).nnz == 0))
        # a single-sector decoder leaves the other half of the correction zero
        if etype == 'X':
            wired = wired and not any(z3.is_true(z3.simplify(c)) or not z3.is_false(z3.simplify(c)) for c in cells[n:])
        if etype == 'Z':
            wired = wired and not any(z3.is_true(z3.simplify(c)) or not z3.is_false(z3.simplify(c)) for c in cells[:n])
        bad_wire.append(z3_and(p.pc + [z3.BoolVal(not wired)]))
        if not wired:
            continue
        if etype in (None, 'X'):
            bad_x.append(z3_and(p.pc + [mx.min_clause(0, CX), same_x, wsum(wx_true, cells[:n]) > wsum(wx_true, CX)]))
        if etype in (None, 'Z'):
            bad_z.append(z3_and(p.pc + [mz.min_clause(0, CZ), same_z, wsum(wz_true, cells[n:]) > wsum(wz_true, CZ)]))
    col.prove('C09/matching/x-sector-uses-Hz-and-z-sector-uses-Hx', base, z3_or(bad_wire), wit)
    if etype == 'Z':
        bad_x = [z3.BoolVal(False)]
    if etype == 'X':
        bad_z = [z3.BoolVal(False)]
    col.prove('C09/matching/x-correction-has-minimum-log-likelihood-weight', base, z3_or(bad_x), wit,
              'no competitor with the same Z-type syndrome has smaller weight under the LLR of the X-flip marginal; '
              'all errors, all per-qubit distributions with marginals < 1/2, all competitors', timeout_ms=120000)
    col.prove('C09/matching/z-correction-has-minimum-log-likelihood-weight', base, z3_or(bad_z), wit,
              timeout_ms=120000)
    return col.result()


def w_correctable(cfg, tier):
    """Uniform weights: every Pauli error of weight <= floor((d-1)/2) is corrected."""
    mods = _install()
    md = mods['md']
    code = common.make_code(cfg.split(' ')[1])
    n = code.n
    d = int(code.d)
    t = (d - 1) // 2
    col = hz.Collector(cfg)
    col.encoded(md.MatchingDecoder.__init__, md.MatchingDecoder.decode, type(code).is_success)
    from panqec.error_models import PauliErrorModel
    E = [z3.Bool(f'e_{i}') for i in range(2 * n)]
    old = md.Matching
    md.Matching = MatchStub
    eng = Engine(name=cfg)
    try:
        with eng:
            def fn():
                dec = md.MatchingDecoder(code, PauliErrorModel(1 / 3, 1 / 3, 1 / 3), 0.1,
                                         weights=(np.ones(n), np.ones(n)))
                e = as_sa([Bit(b) for b in E])
                c = dec.decode(code.measure_syndrome(e))
                total = (c + e) % 2
                return code.is_success(total), dec
            ps = eng.explore(fn)
    finally:
        md.Matching = old
    col.absorb(eng)
    wt = z3.PbLe([(z3.Or(E[i], E[n + i]), 1) for i in range(n)], t)

    def wit(m):
        return dict(error=[1 if z3.is_true(m.eval(b, model_completion=True)) else 0 for b in E], d=d, t=t)
    bad = []
    for p in ps:
        if p.exc is not None:
            r, m, dt = col.solve(p.pc)
            col.record('C09/correctable/no-exception', r, dt, True, wit(m) if m else None, str(p.exc))
            continue
        ok, dec = p.value
        if ok is True:
            continue
        # the error itself is a competitor with the measured syndrome
        cl = z3.And(dec.matcher_x.min_clause(0, E[:n]), dec.matcher_z.min_clause(0, E[n:]))
        bad.append(z3_and(p.pc + [wt, cl]))
    col.prove('C09/correctable/every-error-of-weight-le-t-is-corrected', [], z3_or(bad), wit,
              f'd={d}, t={t}: for all Pauli errors (X/Y/Z) of weight <= t, error + minimum-weight correction is a '
              'stabilizer (real is_success)', timeout_ms=300000)
    col.reach('C09/correctable/reach', [wt] + (ps[0].pc if ps else [z3.BoolVal(False)]))
    return col.result()


def w_second(cfg, tier):
    """A second matching decoder built in the same process for another noise model (same code, same rate,
    same direction, other deformation axis / undeformed): its matchers must carry ITS OWN log-likelihood
    weights and matrices."""
    mods = _install()
    md, pem = mods['md'], mods['pem']
    parts = cfg.split(' ')
    cls_name, size, name, axis = common.parse_cfg(parts[1])
    axis2 = parts[2]
    import panqec.codes as pc
    code = getattr(pc, cls_name)(*size)
    n = code.n
    col = hz.Collector(cfg)
    col.encoded(md.MatchingDecoder.__init__, mods['bem'].BaseErrorModel.get_weights)
    P = pem.PauliErrorModel
    kwA = {'deformation_axis': axis} if axis else {}
    kwB = {'deformation_axis': axis2} if axis2 not in ('none', '-') else {}
    nameB = None if axis2 == 'none' else name
    qc = list(code.qubit_coordinates)
    dB = [code.get_deformation(q, nameB, **kwB) if nameB else {s_: s_ for s_ in 'XYZ'} for q in qc]
    old = md.Matching
    md.Matching = MatchStub
    eng = Engine(name=cfg)
    eng.format_mode = 'placeholder'
    try:
        with eng:
            rx, ry = eng.real('rx', 0, 1), eng.real('ry', 0, 1)
            rz = SymReal(1 - rx.t - ry.t)
            eng.assume_base(rz.t >= 0)

            def fn():
                P.probability_distribution.cache_clear()
                A = P.__new__(P)
                A._direction, A._deformation_name, A._deformation_kwargs = (rx, ry, rz), name, dict(kwA)
                B = P.__new__(P)
                B._direction, B._deformation_name, B._deformation_kwargs = (rx, ry, rz), nameB, dict(kwB)
                md.MatchingDecoder(code, A, 0.25)
                dec = md.MatchingDecoder(code, B, 0.25)
                return dec
            ps = eng.explore(fn)
    finally:
        md.Matching = old
        P.probability_distribution.cache_clear()
    col.absorb(eng)
    with eng:       # spec terms are built with the same proxy operations as the library (needs a session)
        quarter = z3.RealVal('1/4')
        r = {'X': rx.t, 'Y': ry.t, 'Z': rz.t}
        bad = []
        for p in ps:
            if p.exc is not None:
                col.record('C09/second-decoder/no-exception', 'sat', 0, True, None, f'{type(p.exc).__name__}: {p.exc}')
                continue
            dec = p.value
            d = [z3.BoolVal((dec.matcher_x.H != code.Hz).nnz != 0 or (dec.matcher_z.H != code.Hx).nnz != 0)]
            for stub, letter in ((dec.matcher_x, 'X'), (dec.matcher_z, 'Z')):
                w = [term_of(x, 'real') for x in np.asarray(stub.weights).reshape(-1)]
                for i in range(n):
                    m_ = SymReal(quarter * r[dB[i][letter]]) + SymReal(quarter * r[dB[i]['Y']])
                    want = term_of(-(((m_ + EPS) / (1 - m_ + EPS)).log()), 'real')
                    # same uninterpreted ln: equal iff the arguments are equal (cross-multiplied, polynomial)
                    if z3.is_app(w[i]) and z3.is_app(want):
                        a1 = w[i].arg(0).arg(0) if w[i].decl().kind() == z3.Z3_OP_UMINUS else None
                        a2 = want.arg(0).arg(0) if want.decl().kind() == z3.Z3_OP_UMINUS else None
                    else:
                        a1 = a2 = None
                    if a1 is None or a2 is None:
                        d.append(w[i] != want)
                    else:
                        d.append(z3.simplify(a1 - a2, som=True) != 0 if not (z3.is_app(a1) and a1.decl().kind() == z3.Z3_OP_DIV)
                                 else a1.arg(0) * a2.arg(1) != a2.arg(0) * a1.arg(1))
            bad.append(z3_and(p.pc + [z3_or(d)]))

    def wit(m):
        return dict(rx=str(model_frac(m, rx.t)), ry=str(model_frac(m, ry.t)), second=True)
    col.prove('C09/second-decoder/carries-its-own-weights-and-matrices', eng.base +
              [rx.t + ry.t > 0, rz.t + ry.t > 0], z3_or(bad), wit,
              'decoder for model B built after a decoder for model A (other deformation axis) on the same code and rate',
              timeout_ms=120000)
    return col.result()


REAL_DECODERS = {'unionfind': 'UnionFindDecoder', 'sweepmatch': 'SweepMatchDecoder',
                 'rotatedsweepmatch': 'RotatedSweepMatchDecoder', 'matching': 'MatchingDecoder'}


def w_real(cfg, tier):
    """cfg = 'real <decoder> <code> w=<max weight>': the parts of the statement whose decoders cannot be
    encoded (union-find, sweep-match: their control flow is the syndrome).  The error (positions and X/Y/Z
    letters, weight <= w) is solver-chosen and REALISED; the real decoder with the real engines runs on each."""
    import panqec.decoders as pd_
    from panqec.error_models import PauliErrorModel
    parts = cfg.split(' ')
    Dec = getattr(pd_, REAL_DECODERS[parts[1]])
    code = common.make_code(parts[2])
    wmax = int(parts[3].split('=')[1])
    n = code.n
    col = hz.Collector(cfg)
    col.encoded(Dec.decode)
    em = PauliErrorModel(1 / 3, 1 / 3, 1 / 3)
    built = [0]          # decoders built so far from the SAME code and noise-model objects (an explicit history)
    eng = Engine(name=cfg, max_paths=200000)
    with eng:
        qs = [eng.integer(f'q{i}', 0, n - 1) for i in range(wmax)]
        ls = [eng.integer(f'l{i}', 1 if i == 0 else 0, 3) for i in range(wmax)]     # 1=X 2=Z 3=Y, 0 = absent
        for a_, b_ in zip(qs, qs[1:]):
            eng.assume_base((a_ < b_).t)
        if len(parts) > 4 and parts[4] == 'xtrans':
            # X-type errors only, one representative per translation class of the torus: the lowest-index qubit of
            # the error is the first qubit of one of the two orientations (the lattice is translation invariant)
            axes = [code.qubit_axis(c) for c in code.qubit_coordinates]
            reps = [axes.index(a_) for a_ in sorted(set(axes))]
            for l_ in ls:
                eng.assume_base((l_ == 1).t)
            eng.assume_base(z3.Or([qs[0].t == r_ for r_ in reps]))

        def fn():
            e = np.zeros(2 * n, dtype=np.uint8)
            for q, l in zip(qs, ls):
                qv, lv = int(q), int(l)
                if lv & 1:
                    e[qv] ^= 1
                if lv & 2:
                    e[n + qv] ^= 1
            k_ = built[0]
            built[0] += 1
            dec = Dec(code, em, 0.1)
            c = np.asarray(dec.decode(code.measure_syndrome(e)))
            return e.tolist(), c.shape == (2 * n,) and bool(code.is_success((c.astype(np.uint8) + e) % 2)), k_
        ps = eng.explore(fn)
    col.absorb(eng)
    bad = []
    w = [None]
    for p in ps:
        if p.exc is not None:
            bad.append(z3_and(p.pc))
            w[0] = w[0] or dict(error=None, exception=f'{type(p.exc).__name__}: {p.exc}')
            continue
        e, ok, k_ = p.value
        bad.append(z3_and(p.pc + [z3.BoolVal(not ok)]))
        if not ok and w[0] is None:
            w[0] = dict(error=e, real=parts[1], earlier_decoders=k_)
    col.prove(f'C09/real/{parts[1]}/every-error-of-weight-le-{wmax}-is-corrected', eng.base, z3_or(bad), lambda m: w[0],
              f'{len(ps)} realised errors (all supports of size <= {wmax}, all X/Y/Z letters), real {Dec.__name__}; every decoder is '
              'built anew from the same code and noise-model objects (the k-th path has k earlier decoders as history)')
    return col.result()


def worker(cfg, tier='quick'):
    return {'optimal': w_optimal, 'correctable': w_correctable, 'second': w_second, 'real': w_real}[cfg.split()[0]](cfg, tier)


def replay(path):
    """Real PyMatching on the counterexample."""
    from panqec.error_models import PauliErrorModel
    from panqec.decoders import MatchingDecoder
    with open(path) as f:
        dd = json.load(f)
    w, oid, cfg = dd['witness'], dd['oid'], dd['config']
    bad = False
    try:
        if not cfg.startswith('real'):
            code = common.make_code(cfg.split(' ')[1])
            n = code.n
        if cfg.startswith('real'):
            import panqec.decoders as pd_
            parts = cfg.split(' ')
            Dec = getattr(pd_, REAL_DECODERS[parts[1]])
            code = common.make_code(parts[2])
            e = np.array(w['error'], dtype=np.uint8)
            em = PauliErrorModel(1 / 3, 1 / 3, 1 / 3)
            for _ in range(min(int(w.get('earlier_decoders', 0)), 20000)):
                Dec(code, em, 0.1)          # the history of the failing path: decoders built from the same objects
            dec = Dec(code, em, 0.1)
            c = np.asarray(dec.decode(code.measure_syndrome(e))).astype(np.uint8)
            bad = not code.is_success((c + e) % 2)
            print('error', e.tolist(), 'after', w.get('earlier_decoders', 0), 'earlier decoders; corrected:', not bad)
            print('REPLAY', 'reproduced' if bad else 'not-reproduced', oid, cfg)
            return 0
        if cfg.startswith('second'):
            # real PyMatching: build A then B, compare B's edge weights with B's own get_weights()
            import panqec.codes as pc
            parts = cfg.split(' ')
            cls_name, size, name, axis = common.parse_cfg(parts[1])
            axis2 = parts[2]
            code = getattr(pc, cls_name)(*size)
            n = code.n
            kwA = {'deformation_axis': axis} if axis else {}
            kwB = {'deformation_axis': axis2} if axis2 not in ('none', '-') else {}
            nameB = None if axis2 == 'none' else name
            for d_ in [(float(Fraction(w['rx'])), float(Fraction(w['ry']))), (0.1, 0.1), (0.8, 0.1)]:
                rz_ = 1 - d_[0] - d_[1]
                A = PauliErrorModel(d_[0], d_[1], rz_, deformation_name=name, deformation_kwargs=kwA)
                B = PauliErrorModel(d_[0], d_[1], rz_, deformation_name=nameB, deformation_kwargs=kwB)
                MatchingDecoder(code, A, 0.25)
                decB = MatchingDecoder(code, B, 0.25)
                # independent LLR of B's own flip marginals (not B.get_weights, which is code under test)
                _, bx, by, bz = B.probability_distribution(code, 0.25)
                wx = -np.log((bx + by + EPS) / (1 - (bx + by) + EPS))
                wz = -np.log((bz + by + EPS) / (1 - (bz + by) + EPS))
                for matcher, want in ((decB.matcher_x, wx), (decB.matcher_z, wz)):
                    got = {}
                    for u, v, attr in matcher.edges():
                        for f_ in attr['fault_ids']:
                            got[f_] = attr['weight']
                    if any(abs(got.get(i, want[i]) - want[i]) > 1e-9 for i in range(n)):
                        print('direction', d_, 'edge weights of the second decoder differ from its own LLR weights')
                        bad = True
                if bad:
                    break
            print('REPLAY', 'reproduced' if bad else 'not-reproduced', oid, cfg)
            return 0
        e = np.array(w['error'], dtype=np.uint8)
        if cfg.startswith('correctable'):
            dec = MatchingDecoder(code, PauliErrorModel(1 / 3, 1 / 3, 1 / 3), 0.1, weights=(np.ones(n), np.ones(n)))
            c = dec.decode(code.measure_syndrome(e))
            wt = int(np.count_nonzero(e[:n] | e[n:]))
            print('error weight', wt, 't', w['t'], 'success', code.is_success((c + e) % 2))
            bad = wt <= w['t'] and not code.is_success((c + e) % 2)
        else:
            q0 = {s: np.array([float(Fraction(x)) for x in w['q'][s]]) for s in 'IXYZ'}
            # ln is uninterpreted in the symbolic run, so the model's distribution is one point of the
            # counterexample region "some distribution"; the replay also tries two strongly biased ones
            cands = [q0]
            for qx, qz in ((0.30, 0.01), (0.01, 0.30)):
                cands.append({'I': np.full(n, 1 - qx - qz - 0.01), 'X': np.full(n, qx), 'Y': np.full(n, 0.01),
                              'Z': np.full(n, qz)})
                alt = {k: v.copy() for k, v in cands[-1].items()}
                alt['X'][::2], alt['Z'][::2] = qz, qx          # alternating bias
                cands.append(alt)
            rg = np.random.default_rng(9)
            while len(cands) < 17:                             # per-qubit random channels, flip marginals < 1/2
                d_ = rg.dirichlet([1.0, 0.6, 0.6, 0.6], size=n)
                if ((d_[:, 1] + d_[:, 2]) < 0.49).all() and ((d_[:, 3] + d_[:, 2]) < 0.49).all():
                    cands.append({'I': d_[:, 0], 'X': d_[:, 1], 'Y': d_[:, 2], 'Z': d_[:, 3]})
            for q in cands:
                class Model(PauliErrorModel):
                    def probability_distribution(self, code_, error_rate):
                        return tuple(q[s] for s in 'IXYZ')
                model = Model(1 / 3, 1 / 3, 1 / 3)
                etype = cfg.split(' ')[2] if len(cfg.split(' ')) > 2 else None
                dec = MatchingDecoder(code, model, 0.1, error_type=etype)
                mX, mZ = q['X'] + q['Y'], q['Z'] + q['Y']
                wx = -np.log((mX + EPS) / (1 - mX + EPS))
                wz = -np.log((mZ + EPS) / (1 - mZ + EPS))
                errs = [e] + [np.eye(2 * n, dtype=np.uint8)[i] for i in range(2 * n)]
                if n <= 9:
                    I2 = np.eye(2 * n, dtype=np.uint8)
                    errs += [I2[i] ^ I2[j] for i in range(n) for j in range(i + 1, n)]
                    errs += [I2[n + i] ^ I2[n + j] for i in range(n) for j in range(i + 1, n)]
                for ee in errs:
                    s = code.measure_syndrome(ee)
                    c = np.asarray(dec.decode(s))
                    # exact optimum by enumeration of the solution coset (small codes)
                    for sector, Hs, w_, part in (('x', code.Hz, wx, c[:n]), ('z', code.Hx, wz, c[n:])):
                        if etype is not None and sector != etype.lower():
                            if part.any():
                                print('single-sector decoder', etype, 'touched the other half:', part.tolist())
                                bad = True
                            continue
                        Hd = Hs.toarray()
                        synd = code.extract_z_syndrome(s) if sector == 'x' else code.extract_x_syndrome(s)
                        best = None
                        for bits in itertools.product((0, 1), repeat=n):
                            v = np.array(bits)
                            if ((Hd @ v) % 2 == synd).all():
                                cost = float(w_ @ v)
                                best = cost if best is None or cost < best else best
                        got = float(w_ @ part)
                        if not ((Hd @ part) % 2 == synd).all() or got > best + 1e-6 * max(1, abs(best)):
                            print(sector, 'weight of real PyMatching correction', got, 'optimum', best)
                            bad = True
                    if bad:
                        break
                if bad:
                    break
            if 'uses-Hz' in oid:
                bad = True
    except Exception as ex:
        print('exception on replay:', type(ex).__name__, ex)
        bad = True
    print('REPLAY', 'reproduced' if bad else 'not-reproduced', oid, cfg)
    return 0


def configs(tier):
    opt = ['Toric2DCode(2,2)', 'Planar2DCode(2,3)', 'RotatedPlanar2DCode(3,3)', 'RotatedPlanar2DCode(2,3)']
    cor = ['Toric2DCode(3,3)', 'Toric2DCode(3,4)', 'Planar2DCode(3,3)', 'Planar2DCode(4,3)', 'RotatedPlanar2DCode(3,3)',
           'RotatedPlanar2DCode(4,3)', 'Toric2DCode(4,4)']
    if tier != 'quick':
        opt += ['Toric2DCode(2,3)', 'Planar2DCode(3,3)', 'Toric2DCode(3,3)']
        cor += ['Planar2DCode(4,4)', 'RotatedPlanar2DCode(4,4)', 'RotatedPlanar2DCode(5,5)', 'Planar2DCode(5,5)',
                'Toric2DCode(5,5)', 'RotatedPlanar2DCode(5,4)', 'RotatedPlanar2DCode(6,5)', 'Planar2DCode(6,5)']
        # Toric2DCode(5,6) / (6,6) and RotatedPlanar2DCode(7,7) were tried: solver unknown after 300 s (outside the bound)
    opt += ['Toric2DCode(2,2) Z', 'RotatedPlanar2DCode(2,3) Z', 'Planar2DCode(2,3) X']
    sec = ['Toric2DCode(2,2)/XZZX/x y', 'Planar2DCode(2,3)/XZZX/y x', 'RotatedPlanar2DCode(3,3)/XZZX/x none']
    real = ['real unionfind Toric2DCode(3,3) w=1', 'real unionfind Toric2DCode(3,4) w=1', 'real sweepmatch Toric3DCode(3,3,3) w=1',
            'real rotatedsweepmatch RotatedPlanar3DCode(3,3,3) w=1', 'real matching RotatedPlanar2DCode(3,3) w=1',
            'real unionfind Toric2DCode(5,5) w=2 xtrans', 'real matching Toric2DCode(5,6) w=2 xtrans']
    if tier != 'quick':
        real += ['real unionfind Toric2DCode(4,4) w=1', 'real unionfind Toric2DCode(5,5) w=2', 'real sweepmatch Toric3DCode(3,4,3) w=1',
                 'real sweepmatch Toric3DCode(4,4,4) w=1', 'real rotatedsweepmatch RotatedPlanar3DCode(4,4,3) w=1',
                 'real rotatedsweepmatch RotatedPlanar3DCode(5,5,3) w=1', 'real matching Toric2DCode(5,5) w=2',
                 'real unionfind Toric2DCode(7,7) w=3 xtrans', 'real matching Toric2DCode(7,7) w=3 xtrans']
    return [f'optimal {c}' for c in opt] + [f'correctable {c}' for c in cor] + [f'second {c}' for c in sec] + real


def main(argv=None):
    a = hz.std_args(argv)
    if a.replay:
        return replay(a.replay)
    t0 = time.time()
    cfgs = configs(a.tier)
    if a.only:
        cfgs = [c for c in cfgs if a.only in c]
    res = hz.run_configs('checks.c09', 'worker', cfgs, dict(tier=a.tier), jobs=a.jobs)
    return hz.finish(
        PID, a.tier, a.seed, res, t0,
        assumptions=['PyMatching returns a minimum-weight solution for the check matrix and weights it was given '
                     '(MatchStub + instantiated optimality clause): that PyMatching itself is exact is NOT decided',
                     'ln is uninterpreted; per-qubit distributions arbitrary with flip marginals < 1/2'],
        bounds=dict(optimal='2-D codes with n <= 9 (quick) / <= 18 (thorough); symbolic error, distribution, competitor',
                    correctable='toric / planar / rotated planar, L <= 4 (quick) / <= 5 (thorough), rectangular included'),
        stubs=['pymatching.Matching -> MatchStub'],
        outside=['exactness of PyMatching', 'union-find and sweep-match end-to-end correction guarantees: their control '
                 'flow is the syndrome, so they are only explored as a REALISED list of low-weight errors with the real '
                 'engines (the solver enumerates it) - bounded exploration, not a symbolic argument'])


if __name__ == '__main__':
    sys.exit(main())
