"""C06 — decoding is a pure function of the syndrome.

Real functions executed symbolically: MatchingDecoder.decode and BeliefPropagationOSDDecoder.decode /
initialize_decoders / update_probabilities on ONE decoder object called twice (syndromes of two
symbolic errors) versus a FRESH object, with the real (lru_cached) PauliErrorModel.probability_
distribution and a symbolic noise direction.  Third-party engines are stubs whose state is modelled
(stored channel probabilities, result buffer) and whose decode is an uninterpreted function of
(check matrix content, weights / stored probabilities, syndrome)."""
import json
import sys
import time

import numpy as np
import z3

from symx import Engine, as_sa, install
from symx.core import z3_xor, z3_and, z3_or, bool_term, Bit, SymReal, term_of, model_frac
from symx.stubs import MatchStub, OsdStub
from symx import harness as hz
from checks import common
from checks.c05 import _install

PID = 'C06'


def snapshot(arr):
    return [c for c in np.asarray(arr).reshape(-1)]


def same_cells(a, b):
    """z3 Bool: two cell lists are element-wise equal."""
    if len(a) != len(b):
        return z3.BoolVal(False)
    ts = []
    for x, y in zip(a, b):
        if x is y:
            continue
        try:
            ts.append(term_of(x, 'real') == term_of(y, 'real'))
        except Exception:
            ts.append(bool_term(x) == bool_term(y))
    return z3_and(ts)


def w_pure(cfg, tier):
    mods = _install()
    pem, md, bpd = mods['pem'], mods['md'], mods['bpd']
    parts = cfg.split(' ')
    kind = parts[0]
    code = common.make_code(parts[1])
    upd = len(parts) > 2 and parts[2] == 'update'
    n = code.n
    col = hz.Collector(cfg)
    PauliErrorModel = pem.PauliErrorModel
    if kind == 'matching':
        Dec = md.MatchingDecoder
        mk = lambda model: Dec(code, model, 0.1)
        col.encoded(Dec.__init__, Dec.decode)
    else:
        Dec = bpd.BeliefPropagationOSDDecoder
        mk = lambda model: Dec(code, model, 0.1, channel_update=upd)
        col.encoded(Dec.decode, Dec.initialize_decoders, Dec.update_probabilities, Dec.get_probabilities)
    col.encoded(PauliErrorModel.probability_distribution)
    E1 = [z3.Bool(f'a_{i}') for i in range(2 * n)]
    E2 = [z3.Bool(f'e_{i}') for i in range(2 * n)]
    name, axis = common.parse_cfg(parts[1])[2:]
    old = (md.Matching, bpd.BpOsdDecoder)
    md.Matching, bpd.BpOsdDecoder = MatchStub, OsdStub
    eng = Engine(name=cfg, max_paths=5000)
    eng.format_mode = 'placeholder'
    try:
        with eng:
            rx, ry = eng.real('rx', 0, 1), eng.real('ry', 0, 1)
            rz = SymReal(1 - rx.t - ry.t)
            eng.assume_base(rz.t >= 0)
            # flip marginals below one half at p = 0.1 hold for every direction

            def fn():
                PauliErrorModel.probability_distribution.cache_clear()
                model = PauliErrorModel.__new__(PauliErrorModel)
                model._direction, model._deformation_name, model._deformation_kwargs = (rx, ry, rz), None, {}
                tables = model.probability_distribution(code, 0.1)           # the cached arrays
                snap_tables = [snapshot(t) for t in tables]
                s1 = code.measure_syndrome(as_sa([Bit(b) for b in E1]))
                s2 = code.measure_syndrome(as_sa([Bit(b) for b in E2]))
                snap_s2 = snapshot(s2)
                dec = mk(model)
                dec.decode(s1)
                r_reused = snapshot(dec.decode(s2))
                after_s2 = snapshot(s2)
                fresh = mk(model)
                r_fresh = snapshot(fresh.decode(s2))
                tables_after = [snapshot(t) for t in model.probability_distribution(code, 0.1)]
                same_obj = all(a is b for a, b in zip(tables, model.probability_distribution(code, 0.1)))
                return dict(reused=r_reused, fresh=r_fresh, s_before=snap_s2, s_after=after_s2,
                            t_before=snap_tables, t_after=tables_after, same_obj=same_obj)
            ps = eng.explore(fn)
    finally:
        md.Matching, bpd.BpOsdDecoder = old
        PauliErrorModel.probability_distribution.cache_clear()
    col.absorb(eng)

    def wit(m):
        g = lambda bs: [1 if z3.is_true(m.eval(b, model_completion=True)) else 0 for b in bs]
        return dict(first=g(E1), second=g(E2), rx=str(model_frac(m, rx.t)), ry=str(model_frac(m, ry.t)))
    b_pure, b_syn, b_tab = [], [], []
    for p in ps:
        if p.exc is not None:
            r, m, dt = col.solve(eng.base + p.pc)
            col.record('C06/no-exception', r, dt, True, wit(m) if m else None, f'{type(p.exc).__name__}: {p.exc}')
            continue
        v = p.value
        b_pure.append(z3_and(p.pc + [z3.Not(same_cells(v['reused'], v['fresh']))]))
        b_syn.append(z3_and(p.pc + [z3.Not(same_cells(v['s_before'], v['s_after']))]))
        tabs = z3_and([same_cells(a, b) for a, b in zip(v['t_before'], v['t_after'])])
        b_tab.append(z3_and(p.pc + [z3.Or(z3.Not(tabs), z3.BoolVal(not v['same_obj']))]))
    col.prove(f'C06/{kind}/reused-decoder-equals-fresh-decoder', eng.base, z3_or(b_pure), wit,
              'decode(s) after decode(s1) on one object == decode(s) on a fresh object, for all pairs of errors and all '
              'directions (engine outputs are uninterpreted functions of matrix content, priors and syndrome)')
    col.prove(f'C06/{kind}/caller-syndrome-not-modified', eng.base, z3_or(b_syn), wit)
    col.prove(f'C06/{kind}/cached-probability-tables-not-altered', eng.base, z3_or(b_tab), wit,
              'cells of the lru_cached arrays are term-wise identical after two decodes')
    return col.result()


def w_sweep(cfg, tier):
    """Sweep decoders (randomised): the caller's syndrome array is not modified by decode(), for the
    syndromes of all Pauli errors supported on a small window of qubits (Z and X parts symbolic)."""
    mods = _install()
    import panqec.decoders.sweepmatch._sweep_decoder_3d as s3
    import panqec.decoders.sweepmatch._rotated_sweep_decoder as rs
    install(s3, rs)
    from symx.stubs import SymRng
    from panqec.error_models import PauliErrorModel
    parts = cfg.split(' ')
    code = common.make_code(parts[1])
    which = parts[2]                       # sweep | sweepmatch
    window = [int(x) for x in parts[3].split(',')]
    n = code.n
    code.stabilizer_matrix, code.x_indices, code.z_indices
    rotated = type(code).__name__.startswith('Rotated')
    col = hz.Collector(cfg)
    if which == 'sweep':
        Dec = rs.RotatedSweepDecoder3D if rotated else s3.SweepDecoder3D
    else:
        Dec = mods['rsmd'].RotatedSweepMatchDecoder if rotated else mods['smd'].SweepMatchDecoder
    col.encoded(Dec.decode, (rs.RotatedSweepDecoder3D if rotated else s3.SweepDecoder3D).get_initial_state,
                (rs.RotatedSweepDecoder3D if rotated else s3.SweepDecoder3D).sweep_move)
    ZB = {q: z3.Bool(f'z_{q}') for q in window}
    XB = {q: z3.Bool(f'x_{q}') for q in window[:1]}
    md = mods['md']
    old = md.Matching
    md.Matching = MatchStub
    eng = Engine(name=cfg, max_paths=4000, max_decisions=20000)
    try:
        with eng:
            def fn():
                dec = Dec(code, PauliErrorModel(1 / 3, 1 / 3, 1 / 3), 0.1)
                sw = dec.sweeper if which == 'sweepmatch' else dec
                sw._rng = SymRng('tie')
                if hasattr(sw, 'max_sweep_factor'):
                    sw.max_sweep_factor = 2          # bound the automaton (unrolling bound)
                if hasattr(sw, 'max_rounds'):
                    sw.max_rounds = 1
                e = [0] * (2 * n)
                for q, b in ZB.items():
                    e[n + q] = Bit(b)
                for q, b in XB.items():
                    e[q] = Bit(b)
                s = code.measure_syndrome(as_sa(e))
                before = snapshot(s)
                c = dec.decode(s)
                return before, snapshot(s), np.asarray(c).shape
            ps = eng.explore(fn)
    finally:
        md.Matching = old
    col.absorb(eng)

    def wit(m):
        return dict(z={str(q): (1 if z3.is_true(m.eval(b, model_completion=True)) else 0) for q, b in ZB.items()},
                    x={str(q): (1 if z3.is_true(m.eval(b, model_completion=True)) else 0) for q, b in XB.items()},
                    sweep=which)
    bad, bshape = [], []
    for p in ps:
        if p.exc is not None:
            r, m, dt = col.solve(p.pc)
            col.record('C06/sweep/no-exception', r, dt, True, wit(m) if m else None, f'{type(p.exc).__name__}: {p.exc}')
            continue
        before, after, shape = p.value
        bad.append(z3_and(p.pc + [z3.Not(same_cells(before, after))]))
        bshape.append(z3_and(p.pc + [z3.BoolVal(shape != (2 * n,))]))
    col.prove(f'C06/{which}/caller-syndrome-not-modified', [], z3_or(bad), wit,
              f'{len(ps)} paths: syndromes of all errors with Z part on qubits {window} and X part on qubit {window[:1]}; '
              'all tie-break draws; automaton bounded to 2 sweeps per unit size / 1 round')
    col.prove(f'C06/{which}/returns-length-2n', [], z3_or(bshape), wit)
    return col.result()


def w_xcube(cfg, tier):
    """XCubeMatchingDecoder: its control flow is the syndrome, so the error window is REALISED (the solver
    enumerates the 2^w window errors) and the real decoder with the real engines runs on each."""
    from panqec.decoders import XCubeMatchingDecoder
    from panqec.error_models import PauliErrorModel
    parts = cfg.split(' ')
    code = common.make_code(parts[1])
    window = [int(x) for x in parts[2].split(',')]
    n = code.n
    col = hz.Collector(cfg)
    col.encoded(XCubeMatchingDecoder.decode)
    ZB = {q: z3.Bool(f'z_{q}') for q in window}
    XB = {q: z3.Bool(f'x_{q}') for q in window[:2]}
    eng = Engine(name=cfg, max_paths=200)
    with eng:
        def fn():
            e = np.zeros(2 * n, dtype=np.uint8)
            for q, b in ZB.items():
                e[n + q] = int(Bit(b))           # realised
            for q, b in XB.items():
                e[q] = int(Bit(b))
            s = code.measure_syndrome(e)
            keep = s.copy()
            s1 = code.measure_syndrome(np.roll(e, 1))
            # one decoder object per path: the history is exactly "one earlier call" (and is replayed as such)
            dec = XCubeMatchingDecoder(code, PauliErrorModel(1 / 3, 1 / 3, 1 / 3), 0.1)
            dec.decode(s1)                       # an earlier call on the same object
            c = np.asarray(dec.decode(s))
            fresh = np.asarray(XCubeMatchingDecoder(code, PauliErrorModel(1 / 3, 1 / 3, 1 / 3), 0.1).decode(keep.copy()))
            return bool((keep != s).any()), c.shape, bool((c != fresh).any())
        ps = eng.explore(fn)
    col.absorb(eng)

    def wit(m):
        return dict(z={str(q): (1 if z3.is_true(m.eval(b, model_completion=True)) else 0) for q, b in ZB.items()},
                    x={str(q): (1 if z3.is_true(m.eval(b, model_completion=True)) else 0) for q, b in XB.items()},
                    sweep='xcube')
    bad, bpure = [], []
    for p in ps:
        if p.exc is not None:
            r, m, dt = col.solve(p.pc)
            col.record('C06/xcube/no-exception', r, dt, True, wit(m) if m else None, f'{type(p.exc).__name__}: {p.exc}')
            continue
        modified, shape, differs = p.value
        bad.append(z3_and(p.pc + [z3.BoolVal(modified or shape != (2 * n,))]))
        bpure.append(z3_and(p.pc + [z3.BoolVal(differs)]))
    col.prove('C06/xcube/caller-syndrome-not-modified', [], z3_or(bad), wit,
              f'{len(ps)} realised window errors (Z on {window}, X on {window[:2]}), real engines')
    col.prove('C06/xcube/reused-decoder-equals-fresh-decoder', [], z3_or(bpure), wit)
    return col.result()


def uf_histories(code, k=3, seed=5):
    """k seeded non-trivial earlier errors (weights 2..4) for the reuse histories."""
    rg = np.random.default_rng(seed)
    out = []
    while len(out) < k:
        e = np.zeros(2 * code.n, dtype=np.uint8)
        for q in rg.choice(code.n, size=int(rg.integers(2, 5)), replace=False):
            e[int(q) + (code.n if rg.random() < 0.5 else 0)] = 1
        out.append(e)
    return out


def w_realreuse(cfg, tier):
    """cfg = 'realreuse <decoder> <code>': a REAL deterministic decoder (its control flow is the syndrome, so it
    is not encoded): one object decodes a seeded non-trivial earlier syndrome, then the syndrome of a solver-chosen
    (realised) weight-2 error (both qubits, both letters); the correction must be the one a fresh decoder
    returns, and the caller's syndrome array must be untouched."""
    import panqec.decoders as pd_
    from panqec.error_models import PauliErrorModel
    parts = cfg.split(' ')
    Dec = getattr(pd_, {'unionfind': 'UnionFindDecoder', 'matching': 'MatchingDecoder',
                        'bposd': 'BeliefPropagationOSDDecoder', 'xcube': 'XCubeMatchingDecoder'}[parts[1]])
    code = common.make_code(parts[2])
    n = code.n
    col = hz.Collector(cfg)
    col.encoded(Dec.decode)
    em = PauliErrorModel(0.2, 0.3, 0.5)
    single = len(parts) > 3 and parts[3] == 'single'      # histories and targets: all single-qubit X / Z errors
    if single:
        firsts = [np.eye(2 * n, dtype=np.uint8)[i] for i in range(n if tier == 'quick' else 2 * n)]
    else:
        firsts = uf_histories(code, k=3 if tier == 'quick' else 8)
    eng = Engine(name=cfg, max_paths=50000)
    with eng:
        h = eng.integer('history', 0, len(firsts) - 1)
        q1, q2 = eng.integer('q1', 0, n - 1), eng.integer('q2', 0, n - 1)
        l1, l2 = eng.integer('l1', 1, 2), eng.integer('l2', 1, 2)            # 1 = X, 2 = Z
        if not single:
            eng.assume_base((q1 < q2).t)
        eng.assume_base((l1 == l2).t)         # both errors in one sector (clusters of one sector interact)
        if len(parts) > 3 and parts[3].startswith('h='):
            eng.assume_base((h == int(parts[3][2:])).t)      # one history per configuration (parallelism)
        if tier == 'quick':
            eng.assume_base((l1 == 1).t)
        if single:
            eng.assume_base((q2 == 0).t)            # q2 unused: the target is the single error (q1, l1)

        def fn():
            e = np.zeros(2 * n, dtype=np.uint8)
            for q, l in ((int(q1), int(l1)),) if single else ((int(q1), int(l1)), (int(q2), int(l2))):
                e[q + (n if l == 2 else 0)] = 1
            first = firsts[int(h)]
            s = code.measure_syndrome(e)
            keep = s.copy()
            dec = Dec(code, em, 0.1)
            dec.decode(code.measure_syndrome(first))
            r1 = np.asarray(dec.decode(s)).astype(int).tolist()
            r2 = np.asarray(Dec(code, em, 0.1).decode(s)).astype(int).tolist()
            return int(h), e.tolist(), r1 == r2 and bool((keep == s).all())
        ps = eng.explore(fn)
    col.absorb(eng)
    bad, w = [], [None]
    for p in ps:
        if p.exc is not None:
            bad.append(z3_and(p.pc))
            w[0] = w[0] or dict(realreuse=True, exception=f'{type(p.exc).__name__}: {p.exc}')
            continue
        hi, e, ok = p.value
        bad.append(z3_and(p.pc + [z3.BoolVal(not ok)]))
        if not ok and (w[0] is None or 'second' not in w[0]):
            w[0] = dict(realreuse=True, first=firsts[hi].tolist(), second=e)
    col.prove(f'C06/real/{parts[1]}/reused-decoder-equals-fresh-decoder', eng.base, z3_or(bad), lambda m: w[0],
              f'{len(ps)} realised histories ({len(firsts)} seeded earlier errors of weight 2-4 x all weight-2 errors of one sector), '
              f'real {Dec.__name__}')
    return col.result()


def worker(cfg, tier='quick'):
    if cfg.startswith('realreuse'):
        return w_realreuse(cfg, tier)
    if cfg.startswith('xcubedec'):
        return w_xcube(cfg, tier)
    if cfg.startswith('sweepdec'):
        return w_sweep(cfg, tier)
    return w_pure(cfg, tier)


def replay(path):
    """Real engines: decode(s1); decode(s) on one object vs a fresh object."""
    from panqec.error_models import PauliErrorModel
    from panqec.decoders import MatchingDecoder, BeliefPropagationOSDDecoder
    from fractions import Fraction
    with open(path) as f:
        d = json.load(f)
    w, oid, cfg = d['witness'], d['oid'], d['config']
    parts = cfg.split(' ')
    if w.get('realreuse'):
        import panqec.decoders as pd_
        bad = False
        if 'second' in w:
            Dec = getattr(pd_, {'unionfind': 'UnionFindDecoder', 'matching': 'MatchingDecoder',
                                'bposd': 'BeliefPropagationOSDDecoder', 'xcube': 'XCubeMatchingDecoder'}[parts[1]])
            code = common.make_code(parts[2])
            em = PauliErrorModel(0.2, 0.3, 0.5)
            s = code.measure_syndrome(np.array(w['second'], dtype=np.uint8))
            dec = Dec(code, em, 0.1)
            dec.decode(code.measure_syndrome(np.array(w['first'], dtype=np.uint8)))
            r1 = np.asarray(dec.decode(s)).astype(int).tolist()
            r2 = np.asarray(Dec(code, em, 0.1).decode(s)).astype(int).tolist()
            print('earlier error', w['first'], 'then', w['second'], ': reused', r1, 'fresh', r2)
            bad = r1 != r2
        else:
            print(w.get('exception'))
            res = worker(cfg)
            bad = any(o['oid'] == oid and o['verdict'] == 'sat' for o in res['obs'])
        print('REPLAY', 'reproduced' if bad else 'not-reproduced', oid, cfg)
        return 0
    code = common.make_code(parts[1])
    bad = False
    if cfg.startswith('sweepdec') or cfg.startswith('xcubedec'):
        from panqec.decoders import SweepDecoder3D, RotatedSweepDecoder3D, SweepMatchDecoder, RotatedSweepMatchDecoder
        rotated = type(code).__name__.startswith('Rotated')
        from panqec.decoders import XCubeMatchingDecoder
        Dec = {('xcube', False): XCubeMatchingDecoder, ('sweep', False): SweepDecoder3D, ('sweep', True): RotatedSweepDecoder3D,
               ('sweepmatch', False): SweepMatchDecoder, ('sweepmatch', True): RotatedSweepMatchDecoder}[(w['sweep'], rotated)]
        try:
            n = code.n
            e = np.zeros(2 * n, dtype=np.uint8)
            for q, b in w['z'].items():
                e[n + int(q)] = b
            for q, b in w['x'].items():
                e[int(q)] = b
            for seed in range(4):
                dec = Dec(code, PauliErrorModel(1 / 3, 1 / 3, 1 / 3), 0.1)
                s = code.measure_syndrome(e)
                keep = s.copy()
                if 'reused' in oid:
                    dec.decode(code.measure_syndrome(np.roll(e, 1)))
                    c1 = np.asarray(dec.decode(s)).astype(int)
                    c2 = np.asarray(Dec(code, PauliErrorModel(1 / 3, 1 / 3, 1 / 3), 0.1).decode(keep.copy())).astype(int)
                    if (c1 != c2).any():
                        print('reused', c1.tolist(), 'fresh', c2.tolist())
                        bad = True
                    break
                dec.decode(s)
                if (keep != s).any():
                    print('syndrome before', keep.tolist(), 'after decode', s.tolist())
                    bad = True
        except Exception as ex:
            print('exception on replay:', type(ex).__name__, ex)
            bad = True
        print('REPLAY', 'reproduced' if bad else 'not-reproduced', oid, cfg)
        return 0
    try:
        rx, ry = float(Fraction(w['rx'])), float(Fraction(w['ry']))
        e1, e2 = np.array(w['first'], dtype=np.uint8), np.array(w['second'], dtype=np.uint8)
        # the symbolic counterexample names one pair of errors; state leaks usually show for many pairs, so the
        # replay also tries single-qubit first errors
        firsts = [e1] + [np.eye(2 * code.n, dtype=np.uint8)[i] for i in range(2 * code.n)]
        for a in firsts:
            model = PauliErrorModel(rx, ry, 1 - rx - ry)
            mk = (lambda: MatchingDecoder(code, model, 0.1)) if parts[0] == 'matching' else \
                (lambda: BeliefPropagationOSDDecoder(code, model, 0.1, channel_update=(len(parts) > 2 and parts[2] == 'update')))
            tables = [t.copy() for t in model.probability_distribution(code, 0.1)]
            s1, s2 = code.measure_syndrome(a), code.measure_syndrome(e2)
            keep = s2.copy()
            dec = mk()
            dec.decode(s1)
            r1 = np.asarray(dec.decode(s2)).copy()
            r2 = np.asarray(mk().decode(s2)).copy()
            t2 = model.probability_distribution(code, 0.1)
            if 'reused' in oid and (r1 != r2).any():
                bad = True
            if 'syndrome' in oid and (keep != s2).any():
                bad = True
            if 'tables' in oid and any((x != y).any() for x, y in zip(tables, t2)):
                bad = True
            if bad:
                break
        if not bad and 'reused' in oid:
            # the symbolic model only says "some history": a seeded search over random histories of heavier
            # errors on the same code (state left in an engine typically needs a non-trivial earlier decode)
            rg = np.random.default_rng(11)
            model = PauliErrorModel(rx, ry, 1 - rx - ry)
            n_pairs = 0
            for _ in range(300):
                a = (rg.random(2 * code.n) < 0.15).astype(np.uint8)
                b = (rg.random(2 * code.n) < 0.15).astype(np.uint8)
                dec = mk()
                dec.decode(code.measure_syndrome(a))
                r1 = np.asarray(dec.decode(code.measure_syndrome(b))).copy()
                r2 = np.asarray(mk().decode(code.measure_syndrome(b))).copy()
                n_pairs += 1
                if (r1 != r2).any():
                    print('random history', a.tolist(), 'then', b.tolist(), ': reused', r1.tolist(), 'fresh', r2.tolist())
                    bad = True
                    break
            print('random histories tried:', n_pairs)
    except Exception as ex:
        print('exception on replay:', type(ex).__name__, ex)
        bad = True
    print('REPLAY', 'reproduced' if bad else 'not-reproduced', oid, cfg)
    return 0


def configs(tier):
    out = ['matching Toric2DCode(2,2)', 'matching RotatedPlanar2DCode(2,3)', 'bposd RotatedPlanar2DCode(2,2) noupdate',
           'bposd RotatedPlanar2DCode(2,2) update', 'bposd Toric2DCode(2,2)/XY noupdate', 'bposd Planar2DCode(2,2) update']
    out += ['xcubedec XCubeCode(2,2,2) 0,5,13']
    out += ['realreuse xcube XCubeCode(2,2,2) single', 'realreuse unionfind Toric2DCode(3,3)'] + \
        (['realreuse unionfind Toric2DCode(3,4)'] + [f'realreuse unionfind Toric2DCode(5,5) h={i}' for i in range(8)] + [ 'realreuse matching RotatedPlanar2DCode(3,3)', 'realreuse bposd Toric2DCode(3,3)/XZZX/x'] if tier != 'quick' else [])
    out += ['sweepdec Toric3DCode(2,2,2) sweep 0,5,13', 'sweepdec Planar3DCode(2,2,2) sweep 0,3,7',
            'sweepdec RotatedPlanar3DCode(2,2,2) sweep 0,2,5', 'sweepdec Toric3DCode(2,2,2) sweepmatch 0,5,13',
            'sweepdec RotatedPlanar3DCode(2,2,2) sweepmatch 0,2,5']
    if tier != 'quick':
        out += ['sweepdec Toric3DCode(2,3,2) sweep 1,8,20', 'sweepdec Planar3DCode(2,3,2) sweepmatch 0,4,9',
                'sweepdec RotatedToric3DCode(2,2,2) sweep 0,4,7']
    if tier != 'quick':
        out += ['matching Planar2DCode(3,3)', 'matching Toric2DCode(3,3)', 'bposd Toric2DCode(2,2) noupdate',
                'bposd RotatedPlanar2DCode(2,2)/XZZX/x noupdate', 'bposd RotatedPlanar3DCode(2,2,2) noupdate']
    return out


def main(argv=None):
    a = hz.std_args(argv)
    if a.replay:
        return replay(a.replay)
    t0 = time.time()
    cfgs = configs(a.tier)
    if a.only:
        cfgs = [c for c in cfgs if a.only in c]
    res = hz.run_configs('checks.c06', 'worker', cfgs, dict(tier=a.tier), jobs=a.jobs)
    return hz.finish(
        PID, a.tier, a.seed, res, t0,
        assumptions=['a third-party engine is a deterministic function of (check matrix, priors it currently holds, '
                     'syndrome); hidden state inside the real C engines is outside',
                     'one inductive step (one earlier call with an arbitrary syndrome) stands for longer histories: the '
                     'only state panqec keeps between calls is what the stubs model (stored priors, result buffer) plus '
                     'the lru_cache, all compared'],
        bounds=dict(symbolic='two errors (all pairs of valid syndromes), noise direction', calls=2,
                    decoders='MatchingDecoder, BeliefPropagationOSDDecoder (CSS / non-CSS, channel_update on / off)'),
        stubs=['pymatching.Matching -> MatchStub', 'ldpc.BpOsdDecoder -> OsdStub'],
        outside=['union-find, XCube matching and MBP decoders (their internals are not encoded)',
                 'sweep decoders: only "the caller\'s syndrome is not modified" is decided here, on a 3-qubit error '
                 'window with the automaton bounded; their validity from an arbitrary rng state is C10\'s step invariant'])


if __name__ == '__main__':
    sys.exit(main())
