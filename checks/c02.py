"""C02 — the parity-check matrix is the faithful image of the lattice definition.

Real functions executed symbolically: get_stabilizer on a symbolic stabilizer location (compared with
the concrete H the real stabilizer_matrix property assembled), to_bsf / from_bsf on symbolic operators
and vectors, measure_syndrome + extract_x/z_syndrome on symbolic errors, the stabilizer_matrix assembly
of a user-defined StabilizerCode subclass with symbolic supports, and the whole index construction
under an arbitrary iteration order of every ``set`` the code modules create (hash-seed independence)."""
import itertools
import json
import sys
import time

import numpy as np
import z3

from symx import Engine, as_sa, install, gf2
from symx import lattice as lt
from symx.core import z3_xor, z3_and, z3_or, bool_term, Bit, SymInt, engine
from symx import harness as hz
from checks import common
from checks.c01 import explore_stabilizer, keys_equal

PID = 'C02'


def _install():
    import panqec.bpauli
    import panqec.bsparse
    import panqec.codes.base._stabilizer_code as sc
    install(panqec.bpauli, panqec.bsparse, sc)


# ----------------------------------------------------------------------------------------------
def w_rows(cfg, tier='quick'):
    """Row i of H == BSF image of get_stabilizer(stabilizer_coordinates[i]); support inside the
    qubit set and non-empty; index tables are bijections; CSS structure."""
    _install()
    from panqec.codes import StabilizerCode
    cfg0 = cfg.split(' ', 1)[1]
    col = hz.Collector(cfg)
    code = common.make_code(cfg0)
    n = code.n
    H = code.stabilizer_matrix.tocsr()
    cls = type(code)
    col.encoded(cls.get_stabilizer, cls.get_qubit_coordinates, cls.get_stabilizer_coordinates,
                StabilizerCode.stabilizer_matrix, StabilizerCode.qubit_index, StabilizerCode.stabilizer_index,
                StabilizerCode.measure_syndrome, StabilizerCode.extract_x_syndrome,
                StabilizerCode.extract_z_syndrome, StabilizerCode.Hx, StabilizerCode.Hz,
                StabilizerCode.x_indices, StabilizerCode.z_indices, StabilizerCode.is_css)
    qc, sc = list(code.qubit_coordinates), list(code.stabilizer_coordinates)
    # ground facts about the tables the real code built
    facts = {
        'qubit-coordinates-distinct': len(set(qc)) == len(qc) == n,
        'stabilizer-coordinates-distinct': len(set(sc)) == len(sc) == H.shape[0],
        'qubit-and-stabilizer-coordinates-disjoint': not (set(qc) & set(sc)),
        'qubit-index-is-enumeration': all(code.qubit_index[c] == i for i, c in enumerate(qc)),
        'stabilizer-index-is-enumeration': all(code.stabilizer_index[c] == i for i, c in enumerate(sc)),
        'H-shape': H.shape == (len(sc), 2 * n),
        'H-binary': bool(np.all(H.data == 1)) if H.nnz else True,
    }
    for k, ok in facts.items():
        col.record(f'C02/tables/{k}', 'unsat' if ok else 'sat', 0, False, dict(fact=k) if not ok else None,
                   'ground fact about the concrete tables (no quantifier)')
    is_css = bool(code.is_css)
    if is_css:
        xi, zi = np.asarray(code.x_indices), np.asarray(code.z_indices)
        Hd = H.toarray()
        css = {
            'x-z-masks-partition-rows': bool(np.all(xi ^ zi)),
            'Hx-is-masked-block': np.array_equal(code.Hx.toarray(), Hd[xi][:, :n]),
            'Hz-is-masked-block': np.array_equal(code.Hz.toarray(), Hd[zi][:, n:]),
        }
        for k, ok in css.items():
            col.record(f'C02/css/{k}', 'unsat' if ok else 'sat', 0, False, dict(fact=k) if not ok else None,
                       'ground fact')
    # the same facts on an object whose derived data were computed BEFORE it was deformed (caches warmed):
    # masks, is_css, Hx/Hz must describe the deformed matrix, not the earlier one
    cls_name, size, dname, daxis = common.parse_cfg(cfg0)
    if dname:
        import panqec.codes as pc_
        warm = getattr(pc_, cls_name)(*size)
        warm.stabilizer_matrix, warm.x_indices, warm.z_indices, warm.is_css
        if warm.is_css:
            warm.Hx, warm.Hz
        warm.logicals_x, warm.logicals_z, warm.d
        warm.deform(dname, **({'deformation_axis': daxis} if daxis else {}))
        Hw = warm.stabilizer_matrix.toarray()
        xw, zw = Hw[:, :n].any(axis=1), Hw[:, n:].any(axis=1)
        wf = {
            'H-equals-fresh-deformed': np.array_equal(Hw, H.toarray()),
            'x-mask-describes-H': np.array_equal(np.asarray(warm.x_indices), xw),
            'z-mask-describes-H': np.array_equal(np.asarray(warm.z_indices), zw),
            'is_css-describes-H': bool(warm.is_css) == (not np.any(xw & zw)),
            'logicals-equal-fresh-deformed': np.array_equal(warm.logicals_x, code.logicals_x) and
            np.array_equal(warm.logicals_z, code.logicals_z),
            'd-equals-fresh-deformed': int(warm.d) == int(code.d),
        }
        if bool(warm.is_css) and not np.any(xw & zw):
            wf['Hx-Hz-are-masked-blocks'] = np.array_equal(warm.Hx.toarray(), Hw[xw][:, :n]) and \
                np.array_equal(warm.Hz.toarray(), Hw[zw][:, n:])
        for k_, ok in wf.items():
            col.record(f'C02/warmed-then-deformed/{k_}', 'unsat' if ok else 'sat', 0, False,
                       dict(fact='warmed-' + k_) if not ok else None,
                       'object built undeformed, all derived data read, then deformed (ground fact)')
    lt.symbolize(code)
    groups = explore_stabilizer(code, cfg0, col, pid='C02')
    qdims = sorted({len(c) for c in qc})
    for avars, base, paths, ncoords in groups:
        dim = len(avars)
        wit_a = lambda m, avars=avars: dict(a=[m.eval(v, model_completion=True).as_long() for v in avars])
        for qd in qdims:
            qv = [z3.Int(f'q{qd}_{d}') for d in range(qd)]
            q_mem = code.qubit_index.member_term(tuple(SymInt(v) for v in qv))
            rows_dim = [(i, c) for i, c in enumerate(sc) if len(c) == dim]
            specs = {}
            for half, off in (('X', 0), ('Z', n)):
                alts = []
                for i, c in rows_dim:
                    qs = [qc[j - off] for j in H.indices[H.indptr[i]:H.indptr[i + 1]] if off <= j < off + n]
                    qs = [x for x in qs if len(x) == qd]
                    if qs:
                        alts.append(z3.And(z3_and([avars[d] == c[d] for d in range(dim)]),
                                           z3_or([z3_and([qv[d] == x[d] for d in range(qd)]) for x in qs])))
                specs[half] = z3_or(alts)
            bad = []
            for pc_, ent, exc in paths:
                if exc is not None:
                    continue
                imgx = z3_or([t for t in (keys_equal(ks, qv) for ks, v in ent if v in 'XY') if t is not None])
                imgz = z3_or([t for t in (keys_equal(ks, qv) for ks, v in ent if v in 'YZ') if t is not None])
                bad.append(z3_and(pc_ + [z3.Or(z3.Xor(imgx, specs['X']), z3.Xor(imgz, specs['Z']))]))

            def wit(m, avars=avars, qv=qv):
                return dict(a=[m.eval(v, model_completion=True).as_long() for v in avars],
                            q=[m.eval(v, model_completion=True).as_long() for v in qv])
            col.prove(f'C02/H-row-equals-image-of-get_stabilizer/arity{dim}/qubit-arity{qd}',
                      base + [q_mem], z3_or(bad), wit,
                      'H[idx(a), idx(q)] (X half) = [letter at q in get_stabilizer(a) in XY], Z half likewise; '
                      'all stabilizer locations a and qubit locations q')
        sup, empt = [], []
        for pc_, ent, exc in paths:
            if exc is not None:
                r, m, dt = col.solve(base + pc_)
                col.record('C02/get_stabilizer/no-exception', r, dt, True, wit_a(m) if m else None, str(exc))
                continue
            outside = [z3.Not(code.qubit_index.member_term(tuple(SymInt(t) for t in ks))) for ks, v in ent]
            sup.append(z3_and(pc_ + [z3_or(outside)]))
            empt.append(z3_and(pc_ + [z3.BoolVal(len(ent) == 0)]))
        col.prove(f'C02/support-inside-qubit-set/arity{dim}', base, z3_or(sup), wit_a)
        col.prove(f'C02/support-non-empty/arity{dim}', base, z3_or(empt), wit_a)

    # CSS: the X-(Z-)part of the syndrome depends only on the Z-(X-)half of the error
    if is_css:
        E = [z3.Bool(f'e_{i}') for i in range(2 * n)]
        F = [z3.Bool(f'f_{i}') for i in range(2 * n)]
        eng = Engine(name=cfg + '#css')
        with eng:
            def fn():
                e, f = as_sa([Bit(b) for b in E]), as_sa([Bit(b) for b in F])
                se, sf = code.measure_syndrome(e), code.measure_syndrome(f)
                return (code.extract_x_syndrome(se), code.extract_x_syndrome(sf),
                        code.extract_z_syndrome(se), code.extract_z_syndrome(sf))
            ps = eng.explore(fn)
        col.absorb(eng)
        same_z = [E[i] == F[i] for i in range(n, 2 * n)]
        same_x = [E[i] == F[i] for i in range(n)]
        bx, bz = [], []
        for p in ps:
            if p.exc is not None:
                col.record('C02/css/no-exception', 'sat', 0, True, None, str(p.exc))
                continue
            xe, xf, ze, zf = [list(np.asarray(v).reshape(-1)) for v in p.value]
            bx.append(z3_and(p.pc + [z3_or([z3_xor([bool_term(a), bool_term(b)]) for a, b in zip(xe, xf)])]))
            bz.append(z3_and(p.pc + [z3_or([z3_xor([bool_term(a), bool_term(b)]) for a, b in zip(ze, zf)])]))

        def wit_ef(m):
            g = lambda bs: [1 if z3.is_true(m.eval(b, model_completion=True)) else 0 for b in bs]
            return dict(e=g(E), f=g(F))
        col.prove('C02/css/x-syndrome-depends-only-on-z-half', same_z, z3_or(bx), wit_ef,
                  'two symbolic errors agreeing on the Z half have equal X-type syndromes')
        col.prove('C02/css/z-syndrome-depends-only-on-x-half', same_x, z3_or(bz), wit_ef)
    return col.result()


# ----------------------------------------------------------------------------------------------
_LET = {(1, 0): 'X', (1, 1): 'Y', (0, 1): 'Z'}


def w_bsf(cfg, tier='quick'):
    """to_bsf / from_bsf are mutually inverse (symbolic vector / symbolic operator, realised)."""
    _install()
    from panqec.codes import StabilizerCode
    import panqec.bsparse as bsp
    cfg0 = cfg.split(' ', 1)[1]
    col = hz.Collector(cfg)
    code = common.make_code(cfg0)
    n = code.n
    col.encoded(StabilizerCode.to_bsf, StabilizerCode.from_bsf)
    qc = list(code.qubit_coordinates)
    V = [z3.Bool(f'v_{i}') for i in range(2 * n)]
    eng = Engine(name=cfg, max_paths=70000)
    with eng:
        def fn():
            v = as_sa([Bit(b) for b in V])
            op = code.from_bsf(v)                    # nonzero() realises every cell
            back = code.to_bsf(op)
            conc = [int(c) for c in v]
            op2 = code.from_bsf(bsp.from_array(np.array(conc, dtype=np.uint8).reshape(1, -1)))
            return op, back, conc, op2
        paths = eng.explore(fn)
    col.absorb(eng)
    a1, a2, a3 = [], [], []
    for p in paths:
        if p.exc is not None:
            r, m, dt = col.solve(p.pc)
            col.record('C02/bsf/no-exception', r, dt, True, None, f'{type(p.exc).__name__}: {p.exc}')
            continue
        op, back, conc, op2 = p.value
        want = {qc[i]: _LET[(conc[i], conc[i + n])] for i in range(n) if conc[i] or conc[i + n]}
        a1.append(z3_and(p.pc + [z3.BoolVal(op != want)]))
        a2.append(z3_and(p.pc + [z3.BoolVal([int(x) for x in back] != conc)]))
        a3.append(z3_and(p.pc + [z3.BoolVal(op2 != want)]))

    def wit(m):
        return dict(v=[1 if z3.is_true(m.eval(b, model_completion=True)) else 0 for b in V])
    col.prove('C02/bsf/from_bsf-is-letterwise-image', [], z3_or(a1), wit)
    col.prove('C02/bsf/to_bsf-inverts-from_bsf', [], z3_or(a2), wit, 'incl. Y operators')
    col.prove('C02/bsf/from_bsf-sparse-row-agrees', [], z3_or(a3), wit)
    col.prove('C02/bsf/paths-cover', [], z3.Not(z3_or([z3_and(p.pc) for p in paths])), wit,
              f'{len(paths)} paths = all 4^{n} operators')
    return col.result()


# ----------------------------------------------------------------------------------------------
def w_user(cfg, tier='quick'):
    """A user-defined StabilizerCode subclass (coordinate API) with symbolic supports: every
    (stabilizer, qubit) incidence is a symbolic choice in {-,X,Y,Z}; the real assembly must produce
    exactly the BSF image."""
    _install()
    from panqec.codes import StabilizerCode
    parts = dict(p.split('=') for p in cfg.split()[1:])
    S, Q = int(parts['s']), int(parts['q'])
    col = hz.Collector(cfg)
    col.encoded(StabilizerCode.stabilizer_matrix, StabilizerCode.to_bsf, StabilizerCode.measure_syndrome)
    qcoords = [(2 * j + 1, 0) for j in range(Q)]
    scoords = [(2 * i, 1) for i in range(S)]
    XB = [[z3.Bool(f'x_{i}_{j}') for j in range(Q)] for i in range(S)]
    ZB = [[z3.Bool(f'z_{i}_{j}') for j in range(Q)] for i in range(S)]

    class UserCode(StabilizerCode):
        dimension = 2
        label = 'user'

        def get_qubit_coordinates(self):
            return list(qcoords)

        def get_stabilizer_coordinates(self):
            return list(scoords)

        def qubit_axis(self, location):
            return 'x'

        def stabilizer_type(self, location):
            return 'vertex'

        def get_stabilizer(self, location):
            i = scoords.index(location)
            op = {}
            for j in range(Q):
                x, z = int(Bit(XB[i][j])), int(Bit(ZB[i][j]))     # realised: forks
                if x or z:
                    op[qcoords[j]] = _LET[(x, z)]
            return op

        def get_logicals_x(self):
            return []

        def get_logicals_z(self):
            return []

    E = [z3.Bool(f'e_{i}') for i in range(2 * Q)]
    eng = Engine(name=cfg, max_paths=70000)
    with eng:
        def fn():
            code = UserCode(Q, 1)
            H = code.stabilizer_matrix
            e = as_sa([Bit(b) for b in E])
            return H.toarray().tolist(), list(code.measure_syndrome(e))
        paths = eng.explore(fn)
    col.absorb(eng)
    bad_h, bad_s = [], []
    for p in paths:
        if p.exc is not None:
            r, m, dt = col.solve(p.pc)
            col.record('C02/user-code/no-exception', r, dt, True, None, f'{type(p.exc).__name__}: {p.exc}')
            continue
        H, syn = p.value
        diffs = []
        for i in range(S):
            for j in range(Q):
                diffs.append(z3.Xor(z3.BoolVal(bool(H[i][j])), XB[i][j]))
                diffs.append(z3.Xor(z3.BoolVal(bool(H[i][Q + j])), ZB[i][j]))
        bad_h.append(z3_and(p.pc + [z3_or(diffs)]))
        sd = []
        for i in range(S):
            spec = z3_xor([z3.And(XB[i][j], E[Q + j]) for j in range(Q)] +
                          [z3.And(ZB[i][j], E[j]) for j in range(Q)])
            sd.append(z3.Xor(bool_term(syn[i]), spec))
        bad_s.append(z3_and(p.pc + [z3_or(sd)]))

    def wit(m):
        g = lambda M: [[1 if z3.is_true(m.eval(b, model_completion=True)) else 0 for b in r] for r in M]
        return dict(x=g(XB), z=g(ZB), e=g([E])[0], s=S, q=Q)
    col.prove('C02/user-code/H-is-bsf-image-of-supports', [], z3_or(bad_h), wit,
              f'all {4 ** (S * Q)} user-defined codes with {S} stabilizers x {Q} qubits')
    col.prove('C02/user-code/syndrome-is-symplectic-product', [], z3_or(bad_s), wit)
    col.prove('C02/user-code/paths-cover', [], z3.Not(z3_or([z3_and(p.pc) for p in paths])), wit,
              f'{len(paths)} paths')
    return col.result()


# ----------------------------------------------------------------------------------------------
class ChoiceSet(set):
    """A set whose iteration order is chosen by the solver among three orders (sorted, reversed,
    rotated by one): models hash randomisation of str / tuple keys.  Exploring all k! orders is
    neither feasible nor needed: output that depends on set order differs between at least two of
    these unless it is symmetric under both reversal and rotation."""

    @staticmethod
    def _randomised(x):
        """CPython randomises only str/bytes hashes (and id-based default hashes); ints and tuples
        of ints hash identically in every process."""
        if isinstance(x, (str, bytes)):
            return True
        if isinstance(x, (tuple, frozenset)):
            return any(ChoiceSet._randomised(y) for y in x)
        if isinstance(x, (int, float, bool, type(None))):
            return False
        return type(x).__hash__ is object.__hash__

    def __iter__(self):
        real = list(set.__iter__(self))
        if len(real) < 2 or not any(self._randomised(x) for x in real):
            return iter(real)            # order is the same in every process
        items = sorted(real, key=repr)
        eng = engine()
        c = eng.integer(eng.path_name('order'), 0, 2)
        eng.assume((c >= 0) & (c <= 2))
        k = int(c)            # realised: one path per order
        if k == 1:
            items = items[::-1]
        elif k == 2:
            items = items[1:] + items[:1]
        return iter(items)


def w_hash(cfg, tier='quick'):
    """Index tables, H and logicals do not depend on the iteration order of any set built by the
    code modules (interpreter hash seed)."""
    import importlib
    cfg0 = cfg.split(' ', 1)[1]
    col = hz.Collector(cfg)
    clsname, size, name, axis = common.parse_cfg(cfg0)
    ref = common.make_code(cfg0)
    ref_t = (list(ref.qubit_coordinates), list(ref.stabilizer_coordinates), dict(ref.qubit_index),
             dict(ref.stabilizer_index), ref.stabilizer_matrix.toarray().tolist(),
             ref.logicals_x.tolist(), ref.logicals_z.tolist())
    import panqec.codes.base._stabilizer_code as scm
    mods = [scm, importlib.import_module(type(ref).__module__)]
    col.encoded(type(ref).get_qubit_coordinates, type(ref).get_stabilizer_coordinates,
                scm.StabilizerCode.qubit_index, scm.StabilizerCode.stabilizer_index,
                scm.StabilizerCode.stabilizer_matrix, scm.StabilizerCode.logicals_x)
    for m in mods:
        m.set = ChoiceSet
        m.frozenset = ChoiceSet
    eng = Engine(name=cfg, max_paths=2000)
    try:
        with eng:
            def fn():
                c = common.make_code(cfg0)
                return (list(c.qubit_coordinates), list(c.stabilizer_coordinates), dict(c.qubit_index),
                        dict(c.stabilizer_index), c.stabilizer_matrix.toarray().tolist(),
                        c.logicals_x.tolist(), c.logicals_z.tolist())
            paths = eng.explore(fn)
    finally:
        for m in mods:
            del m.set
            del m.frozenset
    col.absorb(eng)
    bad = []
    for p in paths:
        if p.exc is not None:
            col.record('C02/hash-seed/no-exception', 'sat', 0, True, None, f'{type(p.exc).__name__}: {p.exc}')
            continue
        bad.append(z3_and(p.pc + [z3.BoolVal(p.value != ref_t)]))
    col.prove('C02/hash-seed/indexing-independent-of-set-iteration-order', [], z3_or(bad),
              lambda m: dict(order=str(m)[:300]),
              f'{len(paths)} distinct iteration orders of sets created by the code modules were feasible')
    return col.result()


def fingerprint(cfg):
    """Everything C02 speaks about, of a code built NOW in this process (after whatever ran before)."""
    import hashlib
    code = common.make_code(cfg)
    H = code.stabilizer_matrix
    parts = [list(map(tuple, code.qubit_coordinates)), list(map(tuple, code.stabilizer_coordinates)),
             sorted((tuple(k), v) for k, v in code.qubit_index.items()),
             sorted((tuple(k), v) for k, v in code.stabilizer_index.items()),
             gf2.rows_of(H), gf2.rows_of(code.logicals_x), gf2.rows_of(code.logicals_z),
             [sorted((tuple(q), p_) for q, p_ in code.get_stabilizer(loc).items()) for loc in code.stabilizer_coordinates],
             bool(code.is_css)]
    if code.is_css:
        parts += [np.asarray(code.x_indices).astype(int).tolist(), np.asarray(code.z_indices).astype(int).tolist(),
                  gf2.rows_of(code.Hx), gf2.rows_of(code.Hz)]
    return hashlib.sha256(repr(parts).encode()).hexdigest()


def use_fully(cfg):
    code = common.make_code(cfg)
    code.stabilizer_matrix, code.logicals_x, code.logicals_z, code.k, code.d
    if code.is_css:
        code.Hx, code.Hz
    for loc in code.stabilizer_coordinates:
        code.get_stabilizer(loc)
    e = np.zeros(2 * code.n, dtype=np.uint8)
    e[0] = 1
    code.measure_syndrome(e), code.logical_errors(e)


def second_pool(tier):
    """Candidate configurations: per class the two smallest sizes, undeformed and with the last offered
    deformation (incl. a non-default axis)."""
    out = []
    for cls in common.CLASSES:
        szs = common.sizes(cls, 'quick')[:2] if tier == 'quick' else common.sizes(cls, 'quick')
        defs = common.deformations(cls)
        for s_ in szs:
            if len(getattr(__import__('panqec.codes', fromlist=[cls]), cls)(*s_).qubit_coordinates) > 120:
                continue
            out.append(common.cfg_name(cls, s_))
            if len(defs) > 1:
                out.append(common.cfg_name(cls, s_, *defs[-1]))
    return out


def w_second(cfg, tier='quick'):
    """cfg = 'second <B>': other code objects are built and used first in the same process -- which ones is
    chosen by the solver (realised): any configuration of the same class, or of any class with the same
    size tuple -- then <B> is built; everything C02 speaks about must equal what a fresh process builds."""
    B = cfg.split(' ', 1)[1]
    col = hz.Collector(cfg)
    clsB, sizeB, _, _ = common.parse_cfg(B)
    pool = [c for c in second_pool(tier) if c != B and
            (common.parse_cfg(c)[0] == clsB or common.parse_cfg(c)[1] == sizeB)]
    fresh = hz.in_forked_child(lambda: fingerprint(B))
    eng = Engine(name=cfg, max_paths=5000)
    with eng:
        ia = eng.integer('first', 0, len(pool) - 1)

        def fn():
            A = pool[int(ia)]

            def history():
                use_fully(A)
                return fingerprint(B)
            return A, hz.in_forked_child(history)
        ps = eng.explore(fn) if pool else []
    col.absorb(eng)
    bad, w = [], [None]
    for p in ps:
        if p.exc is not None:
            bad.append(z3_and(p.pc))
            w[0] = w[0] or dict(second=True, exception=f'{type(p.exc).__name__}: {p.exc}')
            continue
        A, fp = p.value
        bad.append(z3_and(p.pc + [z3.BoolVal(fp != fresh)]))
        if fp != fresh and (w[0] is None or 'first' not in w[0]):
            w[0] = dict(second=True, first=A)
    col.prove('C02/object-built-after-other-objects-equals-the-fresh-process-object', eng.base,
              z3_or(bad) if bad else z3.BoolVal(False), lambda m: w[0],
              f'{len(ps)} realised histories (another code of the same class or of the same size built and used '
              f'first), one forked process each; coordinates, index maps, H, logicals, get_stabilizer, masks, Hx/Hz')
    return col.result()


def worker(cfg, tier='quick'):
    return {'rows': w_rows, 'bsf': w_bsf, 'user': w_user, 'hash': w_hash, 'second': w_second}[cfg.split()[0]](cfg, tier)


def replay(path):
    with open(path) as f:
        d = json.load(f)
    w, oid, cfg = d['witness'], d['oid'], d['config']
    kind = cfg.split()[0]
    bad = False
    try:
        if w.get('second'):
            B = cfg.split(' ', 1)[1]
            if 'first' in w:
                fresh = hz.in_forked_child(lambda: fingerprint(B))
                use_fully(w['first'])
                bad = fingerprint(B) != fresh
                print('built and used first:', w['first'], '-> second object differs from the fresh one:', bad)
            else:
                print(w.get('exception'))
                res = worker(cfg)
                bad = any(o['oid'] == oid and o['verdict'] == 'sat' for o in res['obs'])
        elif kind == 'rows':
            code = common.make_code(cfg.split(' ', 1)[1])
            n = code.n
            H = code.stabilizer_matrix.toarray()
            if w.get('impure'):
                cfg1 = cfg.split(' ', 1)[1]
                a1 = dict(code.get_stabilizer(tuple(w['a'])))
                a2 = dict(code.get_stabilizer(tuple(w['a'])))
                a3 = dict(common.make_code(cfg1).get_stabilizer(tuple(w['a'])))
                print('get_stabilizer', tuple(w['a']), '->', a1, '| again ->', a2, '| other object ->', a3)
                bad = a1 != a2 or a1 != a3
            elif 'H-row-equals' in oid:
                a, q = tuple(w['a']), tuple(w['q'])
                if a in code.stabilizer_index and q in code.qubit_index:
                    op = code.get_stabilizer(a)
                    i, j = code.stabilizer_index[a], code.qubit_index[q]
                    letter = op.get(q)
                    bad = (int(H[i, j]) != int(letter in ('X', 'Y'))) or (int(H[i, n + j]) != int(letter in ('Y', 'Z')))
            elif 'support' in oid:
                a = tuple(w['a'])
                if a in code.stabilizer_index:
                    op = code.get_stabilizer(a)
                    bad = len(op) == 0 or any(k not in code.qubit_index for k in op)
            elif 'depends-only' in oid:
                e, f = np.array(w['e'], dtype=np.uint8), np.array(w['f'], dtype=np.uint8)
                se, sf = code.measure_syndrome(e), code.measure_syndrome(f)
                if 'x-syndrome' in oid:
                    bad = list(code.extract_x_syndrome(se)) != list(code.extract_x_syndrome(sf))
                else:
                    bad = list(code.extract_z_syndrome(se)) != list(code.extract_z_syndrome(sf))
            elif 'warmed-then-deformed' in oid:
                import panqec.codes as pc_
                cls_name, size, dname, daxis = common.parse_cfg(cfg.split(' ', 1)[1])
                warm = getattr(pc_, cls_name)(*size)
                warm.stabilizer_matrix, warm.x_indices, warm.z_indices, warm.is_css
                if warm.is_css:
                    warm.Hx, warm.Hz
                warm.logicals_x, warm.logicals_z, warm.d
                warm.deform(dname, **({'deformation_axis': daxis} if daxis else {}))
                Hw = warm.stabilizer_matrix.toarray()
                xw, zw = Hw[:, :n].any(axis=1), Hw[:, n:].any(axis=1)
                print('is_css', warm.is_css, 'should be', not np.any(xw & zw))
                bad = (not np.array_equal(np.asarray(warm.x_indices), xw)) or (not np.array_equal(np.asarray(warm.z_indices), zw)) \
                    or bool(warm.is_css) != (not np.any(xw & zw)) or not np.array_equal(Hw, code.stabilizer_matrix.toarray()) \
                    or not np.array_equal(warm.logicals_x, code.logicals_x) or int(warm.d) != int(code.d)
            elif 'tables' in oid or 'css/' in oid:
                bad = True      # ground fact recomputed by the worker on the real tables
        elif kind == 'bsf':
            code = common.make_code(cfg.split(' ', 1)[1])
            n = code.n
            v = np.array(w['v'], dtype=np.uint)
            op = code.from_bsf(v)
            qc = code.qubit_coordinates
            want = {qc[i]: _LET[(int(v[i]), int(v[i + n]))] for i in range(n) if v[i] or v[i + n]}
            bad = op != want or list(map(int, code.to_bsf(op))) != list(map(int, v))
        elif kind == 'user':
            from panqec.codes import StabilizerCode
            S, Q = w['s'], w['q']
            qcoords = [(2 * j + 1, 0) for j in range(Q)]
            scoords = [(2 * i, 1) for i in range(S)]

            class UserCode(StabilizerCode):
                dimension = 2
                label = 'user'
                get_qubit_coordinates = lambda self: list(qcoords)
                get_stabilizer_coordinates = lambda self: list(scoords)
                qubit_axis = lambda self, l: 'x'
                stabilizer_type = lambda self, l: 'vertex'
                get_logicals_x = lambda self: []
                get_logicals_z = lambda self: []

                def get_stabilizer(self, location):
                    i = scoords.index(location)
                    return {qcoords[j]: _LET[(w['x'][i][j], w['z'][i][j])] for j in range(Q)
                            if w['x'][i][j] or w['z'][i][j]}
            c = UserCode(Q, 1)
            H = c.stabilizer_matrix.toarray()
            want = np.hstack([np.array(w['x']), np.array(w['z'])])
            e = np.array(w['e'], dtype=np.uint8)
            syn = (np.array(w['x']) @ e[Q:] + np.array(w['z']) @ e[:Q]) % 2
            bad = (H.tolist() != want.tolist()) or list(map(int, c.measure_syndrome(e))) != list(map(int, syn))
        elif kind == 'hash':
            import subprocess
            import os
            prog = ('import sys,hashlib,json;sys.path.insert(0,"/verif");from checks import common;'
                    f'c=common.make_code({cfg.split(" ", 1)[1]!r});'
                    'print(hashlib.sha256(json.dumps([list(c.qubit_coordinates),list(c.stabilizer_coordinates),'
                    'c.stabilizer_matrix.toarray().tolist(),c.logicals_x.tolist(),c.logicals_z.tolist()])'
                    '.encode()).hexdigest())')
            outs = set()
            for seed in range(6):
                env = dict(os.environ, PYTHONHASHSEED=str(seed))
                outs.add(subprocess.run([sys.executable, '-c', prog], capture_output=True, text=True,
                                        env=env).stdout.strip())
            print('distinct digests over 6 hash seeds:', len(outs))
            bad = len(outs) > 1
    except Exception as ex:
        print('exception on replay:', type(ex).__name__, ex)
        bad = True
    print('REPLAY', 'reproduced' if bad else 'not-reproduced', oid, cfg)
    return 0


def configs(tier):
    out = [f'rows {c}' for c in common.code_configs(tier, deformed=True, max_n=100 if tier == 'quick' else 400)]
    small = ['RotatedPlanar2DCode(2,2)', 'RotatedPlanar2DCode(2,2)/XY', 'Planar2DCode(2,2)/XZZX/x',
             'RotatedToric3DCode(2,2,1)'] if tier == 'quick' else \
        ['RotatedPlanar2DCode(2,2)', 'RotatedPlanar2DCode(2,2)/XY', 'Planar2DCode(2,2)/XZZX/x',
         'RotatedPlanar2DCode(2,3)/XZZX/y', 'Planar2DCode(2,2)', 'RotatedToric3DCode(2,2,1)',
         'RotatedPlanar3DCode(2,2,1)']
    out += [f'bsf {c}' for c in small]
    out += ['user s=1 q=2', 'user s=2 q=2'] + ([] if tier == 'quick' else ['user s=2 q=3', 'user s=3 q=2'])
    hs = []
    for cls in common.CLASSES:
        s = common.sizes(cls, 'quick')[0]
        d = common.deformations(cls)[-1]
        hs.append(common.cfg_name(cls, s, *d))
    out += [f'hash {c}' for c in hs]
    out += [f'second {c}' for c in second_pool(tier)]
    return out


def main(argv=None):
    a = hz.std_args(argv)
    if a.replay:
        return replay(a.replay)
    t0 = time.time()
    cfgs = common.order(configs(a.tier), a.seed)
    if a.only:
        cfgs = [c for c in cfgs if a.only in c]
    res = hz.run_configs('checks.c02', 'worker', cfgs, dict(tier=a.tier), jobs=a.jobs)
    return hz.finish(
        PID, a.tier, a.seed, res, t0,
        assumptions=['index tables shadowed by SymDict/SymList after the real code built them',
                     'hash randomisation is modelled as an arbitrary iteration order of every set/frozenset '
                     'created by name in the code modules (dict order is insertion order in CPython >= 3.7)',
                     'user-defined codes: fixed coordinate scaffold, supports/letters symbolic (realised)'],
        bounds=dict(rows='same configurations as C01', bsf='codes with n <= 4 (quick) / n <= 6 (thorough): all 4^n '
                    'operators', user='<= 2 stabilizers x 2 qubits quick, <= 3 x 2 / 2 x 3 thorough',
                    hash='one configuration per class (smallest size, last deformation)'),
        stubs=['scipy.sparse.csr_matrix -> symx.csr_shim', 'builtins set/frozenset -> ChoiceSet in code modules '
               '(hash check only)'],
        outside=['arbitrary coordinate scaffolds for user-defined codes', 'sets created through other names '
                 '(e.g. dict.keys() views are ordered)', 'sizes beyond the lists'])


if __name__ == '__main__':
    sys.exit(main())
