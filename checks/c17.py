"""C17 — the reported distance d is the true code distance.

Real functions executed on a fully symbolic error: StabilizerCode.in_codespace, is_logical_error,
bpauli.bsf_wt (the weight), bs_prod; StabilizerCode.d (concrete).  Assertions decided by z3:
no e with in_codespace(e) and is_logical_error(e) and bsf_wt(e) < d;  some such e with weight d."""
import json
import sys
import time

import numpy as np
import z3

from symx import Engine, as_sa, install, gf2
from symx.core import z3_and, z3_or, bool_term, Bit, SymInt, term_of
from symx import harness as hz
from checks import common

PID = 'C17'


def _install():
    import panqec.bpauli
    import panqec.bsparse
    import panqec.codes.base._stabilizer_code as sc
    install(panqec.bpauli, panqec.bsparse, sc)


def worker(cfg, tier='quick', timeout_ms=120000):
    _install()
    import panqec.bpauli as bp
    from panqec.codes import StabilizerCode
    code = common.make_code(cfg)
    n = code.n
    d = int(code.d)
    col = hz.Collector(cfg, timeout_ms=timeout_ms)
    col.encoded(StabilizerCode.d, StabilizerCode.in_codespace, StabilizerCode.is_logical_error,
                StabilizerCode.logical_errors, bp.bsf_wt, bp.bs_prod, bp._bs_prod_sparse,
                bp.get_effective_error)
    eb = [z3.Bool(f'e_{i}') for i in range(2 * n)]
    eng = Engine(name=cfg)
    with eng:
        e = as_sa([Bit(b) for b in eb])

        def fn():
            w = bp.bsf_wt(e)
            return dict(w=w, incs=code.in_codespace(e), islog=code.is_logical_error(e))
        paths = eng.explore(fn)
    col.absorb(eng)

    def wit(m):
        return dict(error=[1 if z3.is_true(m.eval(b, model_completion=True)) else 0 for b in eb], d=d)

    below, at = [], []
    for p in paths:
        if p.exc is not None:
            r, m, dt = col.solve(p.pc)
            col.record('C17/no-exception', r, dt, True, wit(m) if m else None,
                       f'{type(p.exc).__name__}: {p.exc}')
            continue
        v = p.value
        if v['incs'] is True and v['islog'] is True:
            w = v['w'] if isinstance(v['w'], SymInt) else SymInt.lift(v['w'])
            below.append(z3_and(p.pc + [(w < d).t]))
            at.append(z3_and(p.pc + [(w == d).t]))
    col.prove('C17/no-nontrivial-logical-below-d', [], z3_or(below), wit,
              f'd={d}, n={n}: no error with zero syndrome, non-zero logical effect and weight < d')
    r, m, dt = col.solve([z3_or(at)])
    # d must be attained by some non-trivial logical operator; "unsat" here is a violation (d too small
    # cannot happen for weights of real operators, but a d that no operator attains is mis-reported)
    col.record('C17/some-logical-of-weight-d', {'sat': 'unsat', 'unsat': 'sat', 'unknown': 'unknown'}[r],
               dt, True, dict(d=d, none_of_weight_d=True) if r == 'unsat' else None,
               f'd={d} is attained by some operator (existential query; verdict shown inverted: '
               f'"unsat" = witness found)')
    col.prove('C17/paths-cover-all-errors', [], z3.Not(z3_or([z3_and(p.pc) for p in paths])), wit)
    return col.result()


def replay(path):
    with open(path) as f:
        dd = json.load(f)
    code = common.make_code(dd['config'])
    n = code.n
    if dd['witness'].get('none_of_weight_d'):
        # independent matrix-level query (no symx engine): is there a logical operator of weight d?
        Hr, LX, LZ = (gf2.rows_of(x) for x in (code.stabilizer_matrix, code.logicals_x, code.logicals_z))
        sw = lambda v: gf2.swap_halves(v, n)
        xs = [z3.Bool(f'e{i}') for i in range(2 * n)]
        par = lambda mask: z3.Sum([z3.If(xs[j], 1, 0) for j in gf2.bits_of(mask)]) % 2 == 1
        s_ = z3.Solver()
        for h in Hr:
            s_.add(z3.Not(par(sw(h))))
        s_.add(z3.Or([par(sw(l)) for l in LX + LZ]))
        s_.add(z3.PbEq([(z3.Or(xs[i], xs[i + n]), 1) for i in range(n)], int(code.d)))
        bad = s_.check() == z3.unsat
        print('REPLAY', 'reproduced' if bad else 'not-reproduced', dd['oid'], dd['config'])
        return 0
    e = np.array(dd['witness']['error'], dtype=np.uint8)
    wt = int(np.count_nonzero(e[:n] | e[n:]))
    bad = bool(code.in_codespace(e)) and bool(code.is_logical_error(e)) and wt < int(code.d)
    print(f'weight {wt}, reported d {int(code.d)}')
    print('REPLAY', 'reproduced' if bad else 'not-reproduced', dd['oid'], dd['config'])
    return 0


def configs(tier):
    import itertools
    import panqec.codes as pc
    out = []
    # flat lattices whose membrane representative has weight 256 = 2^8 (fixed-width accumulators in the weight
    # computation wrap exactly there) while d = 2 keeps the query trivial
    wide = ['RotatedPlanar3DCode(2,16,16)', 'Planar3DCode(2,16,16)'] + \
        (['Toric3DCode(2,16,16)', 'RotatedToric3DCode(2,16,16)', 'HollowPlanar3DCode(2,16,16)', 'RotatedPlanar3DCode(3,6,43)']
         if tier != 'quick' else [])
    if tier == 'quick':
        for c in common.code_configs(tier, deformed=True):
            cls, size, name, axis = common.parse_cfg(c)
            if getattr(pc, cls)(*size).n <= 100:
                out.append(c)
        return out + wide
    # thorough: every deformation on the thorough size list, plus larger undeformed lattices (2-D sides up to
    # 9, 3-D sides up to 5); the solver decides d <= 9 within the time-out (d >= 10 was tried: unknown)
    seen = set()
    for c in common.code_configs('thorough', deformed=True):
        cls, size, name, axis = common.parse_cfg(c)
        code = getattr(pc, cls)(*size)
        if code.n <= 300 and int(code.d) <= 8:
            out.append(c)
            seen.add((cls, size))
    for cls in common.CLASSES:
        dim = getattr(pc, cls).dimension
        for size in itertools.product(range(2, (9 if dim == 2 else 5) + 1), repeat=dim):
            if (cls, size) in seen or not common.in_family(cls, size):
                continue
            if cls in common.RECTANGULAR_DEFECT and size[0] != size[1]:
                continue
            if cls == 'Color666ToricCode' and size[0] > 2:
                continue
            code = getattr(pc, cls)(*size)
            if code.n <= 700 and int(code.d) <= 9:
                out.append(common.cfg_name(cls, size))
    return out + wide


def main(argv=None):
    a = hz.std_args(argv)
    if a.replay:
        return replay(a.replay)
    t0 = time.time()
    cfgs = common.order(configs(a.tier), a.seed)
    if a.only:
        cfgs = [c for c in cfgs if a.only in c]
    res = hz.run_configs('checks.c17', 'worker', cfgs, dict(tier=a.tier), jobs=a.jobs)
    return hz.finish(
        PID, a.tier, a.seed, res, t0,
        assumptions=['uint8 cells modelled as mathematical integers',
                     'csr_matrix replaced by csr_shim in panqec.bsparse/bpauli'],
        bounds=dict(symbolic='all 2n bits of the Pauli operator', configurations=len(cfgs),
                    quick='n <= 100, all deformations', thorough='all deformations for n <= 300 and d <= 8; undeformed lattices '
                    'with 2-D sides <= 9 / 3-D sides <= 5, n <= 700 and d <= 9'),
        stubs=['scipy.sparse.csr_matrix -> symx.csr_shim'],
        outside=['codes with d >= 10 (tried: solver unknown after 120-240 s) or n > 700', 'sizes beyond the configuration list'])


if __name__ == '__main__':
    sys.exit(main())
