"""C05 — decoders return valid corrections that reproduce the measured syndrome.

Real functions executed symbolically (third-party engines replaced by contract stubs):
MatchingDecoder.__init__/decode, BeliefPropagationOSDDecoder.initialize_decoders/decode/
update_probabilities (CSS and non-CSS, channel_update on/off), SweepMatchDecoder /
RotatedSweepMatchDecoder.decode (composition), UnionFindDecoder.decode (wiring), with a fully symbolic
Pauli error behind the syndrome.  Constructibility over allowed_codes is an instantiation list with
the real engines."""
import json
import sys
import time

import numpy as np
import z3

from symx import Engine, as_sa, install, gf2
from symx.core import z3_xor, z3_and, z3_or, bool_term, Bit, SymReal, term_of
from symx.stubs import MatchStub, OsdStub, SymRng, validate_stub_shapes
from symx import harness as hz
from checks import common
from checks.c07 import arbitrary_distribution

PID = 'C05'


def _install():
    import panqec.bpauli
    import panqec.bsparse
    import panqec.codes.base._stabilizer_code as sc
    import panqec.error_models._pauli_error_model as pem
    import panqec.error_models._base_error_model as bem
    import panqec.decoders.belief_propagation.bposd_decoder as bpd
    import panqec.decoders.matching._matching_decoder as md
    import panqec.decoders.union_find.uf_decoder as ufd
    import panqec.decoders.sweepmatch._sweep_match_decoder as smd
    import panqec.decoders.sweepmatch._rotated_sweep_match_decoder as rsmd
    install(panqec.bpauli, panqec.bsparse, sc, pem, bem, bpd, md, ufd, smd, rsmd)
    return dict(pem=pem, bem=bem, bpd=bpd, md=md, ufd=ufd, smd=smd, rsmd=rsmd)


def stub_model(pem, n):
    Q, base = arbitrary_distribution(n)
    # marginals below one half (the regime the property is about; keeps LLR weights positive)
    base = base + [Q['X'][i] + Q['Y'][i] < z3.RealVal('1/2') for i in range(n)] + \
        [Q['Z'][i] + Q['Y'][i] < z3.RealVal('1/2') for i in range(n)]

    class Model(pem.PauliErrorModel):
        def probability_distribution(self, code_, error_rate):
            return tuple(as_sa([SymReal(t) for t in Q[s]]) for s in 'IXYZ')
    return Model(1 / 3, 1 / 3, 1 / 3), Q, base


def syndrome_spec(code, E):
    n = code.n
    Hr = gf2.rows_of(code.stabilizer_matrix)
    sw = lambda v: gf2.swap_halves(v, n)
    return [z3_xor([E[j] for j in gf2.bits_of(sw(h))]) for h in Hr]


def residual_syndrome(code, E, corr):
    """Specification-side syndrome of error + correction (independent of bs_prod)."""
    n = code.n
    Hr = gf2.rows_of(code.stabilizer_matrix)
    sw = lambda v: gf2.swap_halves(v, n)
    cells = [bool_term(c) for c in corr]
    tot = [z3_xor([E[j], cells[j]]) for j in range(2 * n)]
    return [z3_xor([tot[j] for j in gf2.bits_of(sw(h))]) for h in Hr]


def common_obligations(col, name, code, E, paths, base, extra_ok=None, zero_clause=None):
    n = code.n

    def wit(m):
        return dict(error=[1 if z3.is_true(m.eval(b, model_completion=True)) else 0 for b in E])
    bad_shape, bad_syn, bad_zero = [], [], []
    for p in paths:
        if p.exc is not None:
            r, m, dt = col.solve(base + p.pc)
            col.record(f'C05/{name}/no-exception', r, dt, True, wit(m) if m else None,
                       f'{type(p.exc).__name__}: {p.exc}')
            continue
        corr = np.asarray(p.value['correction'])
        cells = list(corr.reshape(-1))
        ok = corr.shape == (2 * n,)
        binary = z3_and([z3.BoolVal(True)] + [
            z3.Or(term_of(c, 'int') == 0, term_of(c, 'int') == 1) for c in cells])
        bad_shape.append(z3_and(p.pc + [z3.Or(z3.BoolVal(not ok), z3.Not(binary))]))
        if not ok:
            continue
        res = residual_syndrome(code, E, cells)
        bad_syn.append(z3_and(p.pc + [z3_or(res)]))
        if zero_clause is not None:
            zc = zero_clause(p)
            if zc is not None:
                s_zero = z3_and([z3.Not(t) for t in syndrome_spec(code, E)])
                bad_zero.append(z3_and(p.pc + [s_zero, zc, z3_or([bool_term(c) for c in cells])]))
    col.prove(f'C05/{name}/length-2n-binary', base, z3_or(bad_shape), wit)
    col.prove(f'C05/{name}/correction-reproduces-the-syndrome', base, z3_or(bad_syn), wit,
              'syndrome(error + correction) = 0 for every Pauli error (under the engine contract H c = s)')
    if zero_clause is not None:
        col.prove(f'C05/{name}/trivial-syndrome-gives-trivial-correction', base, z3_or(bad_zero), wit,
                  'from minimality against the zero correction with positive weights')
    col.prove(f'C05/{name}/paths-cover', base, z3.Not(z3_or([z3_and(Engine.branch_pc(p)) for p in paths])), wit,
              'branch conditions alone (engine-contract assumptions removed) cover every error')


def w_matching(cfg, tier):
    mods = _install()
    md = mods['md']
    code = common.make_code(cfg.split(' ')[1])
    n = code.n
    col = hz.Collector(cfg)
    col.encoded(md.MatchingDecoder.__init__, md.MatchingDecoder.decode)
    model, Q, base = stub_model(mods['pem'], n)
    E = [z3.Bool(f'e_{i}') for i in range(2 * n)]
    W = [z3.Real(f'w_{i}') for i in range(2 * n)]
    base = base + [w > 0 for w in W]
    old = md.Matching
    md.Matching = MatchStub
    eng = Engine(name=cfg)
    try:
        with eng:
            def fn():
                weights = (as_sa([SymReal(w) for w in W[:n]]), as_sa([SymReal(w) for w in W[n:]]))
                dec = md.MatchingDecoder(code, model, 0.1, weights=weights)
                s = code.measure_syndrome(as_sa([Bit(b) for b in E]))
                first = dec.decode(s)
                kept = list(np.asarray(first).reshape(-1))
                # the same object is then asked for the trivial syndrome (simulations reuse decoders)
                second = dec.decode(np.zeros(code.n_stabilizers, dtype=np.uint8))
                return dict(correction=as_sa(kept), dec=dec, second=list(np.asarray(second).reshape(-1)),
                            first_after=list(np.asarray(first).reshape(-1)), kept=kept)
            ps = eng.explore(fn)
    finally:
        md.Matching = old
    col.absorb(eng)

    def zero_clause(p):
        dec = p.value['dec']
        zero = [z3.BoolVal(False)] * n
        return z3.And(dec.matcher_x.min_clause(0, zero), dec.matcher_z.min_clause(0, zero))
    common_obligations(col, 'matching', code, E, ps, base, zero_clause=zero_clause)
    bad2, bad3 = [], []
    for p in ps:
        if p.exc is not None:
            continue
        v = p.value
        dec = v['dec']
        zero = [z3.BoolVal(False)] * n
        cl = z3.And(dec.matcher_x.min_clause(1, zero), dec.matcher_z.min_clause(1, zero))
        bad2.append(z3_and(p.pc + [cl, z3_or([bool_term(c) for c in v['second']])]))
        bad3.append(z3_and(p.pc + [z3_or([z3.Xor(bool_term(a), bool_term(b)) for a, b in zip(v['kept'], v['first_after'])])]))

    def wit(m):
        return dict(error=[1 if z3.is_true(m.eval(b, model_completion=True)) else 0 for b in E], then_zero=True)
    col.prove('C05/matching/trivial-syndrome-gives-trivial-correction-on-a-reused-decoder', base, z3_or(bad2), wit,
              'decode(syndrome of any error) followed by decode(0) on the same object returns 0')
    col.prove('C05/matching/returned-correction-not-changed-by-a-later-call', base, z3_or(bad3), wit)
    return col.result()


def w_bposd(cfg, tier):
    mods = _install()
    bpd = mods['bpd']
    parts = cfg.split(' ')
    code = common.make_code(parts[1])
    upd = parts[2] == 'update'
    n = code.n
    col = hz.Collector(cfg)
    Dec = bpd.BeliefPropagationOSDDecoder
    col.encoded(Dec.decode, Dec.initialize_decoders, Dec.update_probabilities)
    model, Q, base = stub_model(mods['pem'], n)
    E = [z3.Bool(f'e_{i}') for i in range(2 * n)]
    old = bpd.BpOsdDecoder
    bpd.BpOsdDecoder = OsdStub
    eng = Engine(name=cfg, max_paths=5000)
    try:
        with eng:
            def fn():
                dec = Dec(code, model, 0.1, channel_update=upd)
                s = code.measure_syndrome(as_sa([Bit(b) for b in E]))
                return dict(correction=dec.decode(s))
            ps = eng.explore(fn)
    finally:
        bpd.BpOsdDecoder = old
    col.absorb(eng)
    common_obligations(col, 'bposd', code, E, ps, base)
    return col.result()


def w_unionfind(cfg, tier):
    mods = _install()
    ufd = mods['ufd']
    code = common.make_code(cfg.split(' ')[1])
    n = code.n
    col = hz.Collector(cfg)
    col.encoded(ufd.UnionFindDecoder.decode)
    E = [z3.Bool(f'e_{i}') for i in range(2 * n)]

    class SupportStub:
        """uf_support.Support(syndrome, H): decode() returns a solution of H c = syndrome."""

        def __init__(self, syndrome, H):
            self.stub = MatchStub(H)
            self.syndrome = syndrome

        def decode(self):
            return self.stub.decode(self.syndrome)
    old = ufd.Support
    ufd.Support = SupportStub
    eng = Engine(name=cfg)
    try:
        with eng:
            def fn():
                dec = ufd.UnionFindDecoder(code, None, 0.1)
                s = code.measure_syndrome(as_sa([Bit(b) for b in E]))
                return dict(correction=dec.decode(s))
            ps = eng.explore(fn)
    finally:
        ufd.Support = old
    col.absorb(eng)
    common_obligations(col, 'unionfind-wiring', code, E, ps, [])
    return col.result()


def w_uf_real(cfg, tier):
    """The real union-find decoder (cluster growth + peeling cannot be encoded: its control flow is the
    syndrome) on errors of weight <= 2 whose positions and letters are solver-chosen and REALISED."""
    from panqec.decoders import UnionFindDecoder
    from panqec.error_models import PauliErrorModel
    code = common.make_code(cfg.split(' ')[1])
    n = code.n
    col = hz.Collector(cfg)
    col.encoded(UnionFindDecoder.decode)
    em = PauliErrorModel(1 / 3, 1 / 3, 1 / 3)
    eng = Engine(name=cfg, max_paths=20000)
    with eng:
        q1 = eng.integer('q1', 0, n - 1)
        q2 = eng.integer('q2', 0, n - 1)
        l1 = eng.integer('l1', 1, 3)          # 1=X 2=Z 3=Y
        l2 = eng.integer('l2', 0, 3)          # 0 = no second error
        eng.assume_base((q1 <= q2).t)

        def fn():
            e = np.zeros(2 * n, dtype=np.uint8)
            for q, l in ((int(q1), int(l1)), (int(q2), int(l2))):
                if l & 1:
                    e[q] ^= 1
                if l & 2:
                    e[n + q] ^= 1
            s = code.measure_syndrome(e)
            c = np.asarray(UnionFindDecoder(code, em, 0.1).decode(s))
            return e.tolist(), c.shape == (2 * n,) and not code.measure_syndrome((e + c.astype(np.uint8)) % 2).any()
        ps = eng.explore(fn)
    col.absorb(eng)
    bad = []
    w = [None]
    for p in ps:
        if p.exc is not None:
            bad.append(z3_and(p.pc))
            continue
        e, ok = p.value
        bad.append(z3_and(p.pc + [z3.BoolVal(not ok)]))
        if not ok and w[0] is None:
            w[0] = dict(error=e)
    col.prove('C05/unionfind-real/correction-reproduces-the-syndrome', eng.base, z3_or(bad), lambda m: w[0],
              f'{len(ps)} realised errors of weight <= 2 (all positions, all X/Y/Z letters), real union-find')
    return col.result()


DECODER_CLASS = {'bposd': 'BeliefPropagationOSDDecoder', 'matching': 'MatchingDecoder',
                 'unionfind': 'UnionFindDecoder', 'mbp': 'MemoryBeliefPropagationDecoder',
                 'xcube': 'XCubeMatchingDecoder', 'sweepmatch': 'SweepMatchDecoder',
                 'rotatedsweepmatch': 'RotatedSweepMatchDecoder'}
# decoders for which the property only promises "a binary vector of length 2n without raising"
INCOMPLETE = ('mbp', 'xcube', 'sweepmatch', 'rotatedsweepmatch')


def w_real_dtype(cfg, tier):
    """cfg = 'real-dtype <decoder> <code> <dtype> [l1]': the real decoder on the syndrome of a solver-chosen
    (realised) error of weight <= 2, handed over in another accepted array representation (bool / int64 /
    uint8): shape, binary, syndrome reproduced, no exception, caller's array untouched.  `l1` pins the
    letter of the first error (splits the configuration over processes)."""
    import panqec.decoders as pd_
    from panqec.error_models import PauliErrorModel
    parts = cfg.split(' ')
    Dec = getattr(pd_, DECODER_CLASS[parts[1]])
    code = common.make_code(parts[2])
    dtype = parts[3]
    n = code.n
    col = hz.Collector(cfg)
    col.encoded(Dec.decode)
    em = PauliErrorModel(0.2, 0.3, 0.5)
    eng = Engine(name=cfg, max_paths=20000)
    with eng:
        q1 = eng.integer('q1', 0, n - 1)
        q2 = eng.integer('q2', 0, n - 1)
        l1 = eng.integer('l1', 1, 3)          # 1=X 2=Z 3=Y
        l2 = eng.integer('l2', 0, 3)          # 0 = no second error
        eng.assume_base((q1 <= q2).t)
        if len(parts) > 4 and parts[4].startswith('wmax='):
            if int(parts[4].split('=')[1]) < 2:
                eng.assume_base((l2 == 0).t)
                eng.assume_base((q2 == q1).t)
        elif len(parts) > 4:
            eng.assume_base((l1 == int(parts[4])).t)

        def fn():
            e = np.zeros(2 * n, dtype=np.uint8)
            for q, l in ((int(q1), int(l1)), (int(q2), int(l2))):
                if l & 1:
                    e[q] ^= 1
                if l & 2:
                    e[n + q] ^= 1
            s = code.measure_syndrome(e).astype(dtype)
            keep = s.copy()
            c = np.asarray(Dec(code, em, 0.1).decode(s))
            ok = c.shape == (2 * n,) and bool(np.isin(c, (0, 1)).all()) and \
                (parts[1] in INCOMPLETE or not code.measure_syndrome((e + c.astype(np.uint8)) % 2).any()) and \
                s.dtype == keep.dtype and bool((s == keep).all())
            return e.tolist(), bool(ok)
        ps = eng.explore(fn)
    col.absorb(eng)
    bad = []
    w = [None]
    for p in ps:
        if p.exc is not None:
            bad.append(z3_and(p.pc))
            w[0] = w[0] or dict(exception=f'{type(p.exc).__name__}: {p.exc}', dtype=dtype, decoder=parts[1])
            continue
        e, ok = p.value
        bad.append(z3_and(p.pc + [z3.BoolVal(not ok)]))
        if not ok and (w[0] is None or 'error' not in w[0]):
            w[0] = dict(error=e, dtype=dtype, decoder=parts[1])
    col.prove(f'C05/real-dtype/{parts[1]}/valid-correction-for-a-{dtype}-syndrome', eng.base, z3_or(bad),
              lambda m: w[0],
              f'{len(ps)} realised errors of weight <= 2 (positions and letters solver-chosen), real {Dec.__name__}, '
              f'syndrome passed as {dtype}')
    return col.result()


def w_real_reuse(cfg, tier):
    """cfg = 'real-reuse <decoder> <code>': ONE real decoder object (real engines) decodes the syndromes of
    two solver-chosen (realised) single-qubit errors one after the other; the second correction must
    reproduce the second syndrome.  Guards the engine stubs' contracts against the real engines."""
    import panqec.decoders as pd_
    from panqec.error_models import PauliErrorModel
    parts = cfg.split(' ')
    Dec = getattr(pd_, {'bposd': 'BeliefPropagationOSDDecoder', 'matching': 'MatchingDecoder',
                        'unionfind': 'UnionFindDecoder', 'mbp': 'MemoryBeliefPropagationDecoder'}[parts[1]])
    code = common.make_code(parts[2])
    n = code.n
    col = hz.Collector(cfg)
    col.encoded(Dec.decode)
    em = PauliErrorModel(0.2, 0.3, 0.5)
    eng = Engine(name=cfg, max_paths=20000)
    with eng:
        q1, q2 = eng.integer('q1', 0, n - 1), eng.integer('q2', 0, n - 1)
        l1, l2 = eng.integer('l1', 1, 3), eng.integer('l2', 0, 3)       # l2 = 0: the zero syndrome second

        def fn():
            def err(q, l):
                e = np.zeros(2 * n, dtype=np.uint8)
                if l & 1:
                    e[q] = 1
                if l & 2:
                    e[n + q] = 1
                return e
            e1, e2 = err(int(q1), int(l1)), err(int(q2), int(l2))
            dec = Dec(code, em, 0.1)
            dec.decode(code.measure_syndrome(e1))
            s2 = code.measure_syndrome(e2)
            c = np.asarray(dec.decode(s2)).astype(np.uint8)
            ok = c.shape == (2 * n,) and not code.measure_syndrome((e2 + c) % 2).any() and (s2.any() or not c.any())
            return e1.tolist(), e2.tolist(), bool(ok)
        ps = eng.explore(fn)
    col.absorb(eng)
    bad = []
    w = [None]
    for p in ps:
        if p.exc is not None:
            bad.append(z3_and(p.pc))
            w[0] = w[0] or dict(exception=f'{type(p.exc).__name__}: {p.exc}')
            continue
        e1, e2, ok = p.value
        bad.append(z3_and(p.pc + [z3.BoolVal(not ok)]))
        if not ok and w[0] is None:
            w[0] = dict(first=e1, error=e2, reuse=parts[1])
    col.prove(f'C05/real-reuse/{parts[1]}/second-correction-reproduces-its-syndrome', eng.base, z3_or(bad), lambda m: w[0],
              f'{len(ps)} realised ordered pairs of single-qubit errors (incl. the zero syndrome second), one reused real '
              f'{Dec.__name__}')
    return col.result()


def w_sweepmatch(cfg, tier):
    """Composition only: Z part from the sweeper, X part from the matcher, sum mod 2."""
    mods = _install()
    code = common.make_code(cfg.split(' ')[1])
    rotated = type(code).__name__.startswith('Rotated')
    mod = mods['rsmd'] if rotated else mods['smd']
    Dec = mod.RotatedSweepMatchDecoder if rotated else mod.SweepMatchDecoder
    n = code.n
    col = hz.Collector(cfg)
    col.encoded(Dec.decode, Dec.__init__)
    from panqec.error_models import PauliErrorModel
    ZS = [z3.Bool(f'zs_{i}') for i in range(n)]
    XM = [z3.Bool(f'xm_{i}') for i in range(n)]
    import panqec.decoders.matching._matching_decoder as md
    old = md.Matching
    md.Matching = MatchStub
    eng = Engine(name=cfg)
    try:
        with eng:
            def fn():
                dec = Dec(code, PauliErrorModel(1 / 3, 1 / 3, 1 / 3), 0.1)
                seen = {}

                def sweeper_decode(s, **k):
                    seen['sweeper'] = s
                    return as_sa([0] * n + [Bit(b) for b in ZS])

                def matcher_decode(s, **k):
                    seen['matcher'] = s
                    return as_sa([Bit(b) for b in XM] + [0] * n)
                dec.sweeper.decode = sweeper_decode
                dec.matcher.decode = matcher_decode
                s = np.zeros(code.n_stabilizers, dtype=np.uint8)
                c = dec.decode(s)
                return dict(correction=c, same=seen.get('sweeper') is s and seen.get('matcher') is s,
                            et=getattr(dec.matcher, 'error_type', None))
            ps = eng.explore(fn)
    finally:
        md.Matching = old
    col.absorb(eng)
    bad = []
    for p in ps:
        if p.exc is not None:
            col.record('C05/sweepmatch/no-exception', 'sat', 0, True, None, f'{type(p.exc).__name__}: {p.exc}')
            continue
        c = list(np.asarray(p.value['correction']).reshape(-1))
        d = [z3.BoolVal(len(c) != 2 * n or not p.value['same'] or p.value['et'] != 'X')]
        if len(c) == 2 * n:
            d += [z3.Xor(bool_term(c[i]), XM[i]) for i in range(n)]
            d += [z3.Xor(bool_term(c[n + i]), ZS[i]) for i in range(n)]
        bad.append(z3_and(p.pc + [z3_or(d)]))
    col.prove('C05/sweepmatch/composition-is-x-from-matching-plus-z-from-sweep', [], z3_or(bad),
              lambda m: dict(model=str(m)[:200]),
              'length 2n, binary; both sub-decoders receive the full syndrome; matcher restricted to X errors')
    return col.result()


def w_constructible(cfg, tier):
    """Instantiation list: every decoder x every code it declares (all codes for allowed_codes=None),
    real third-party engines, trivial syndrome and one single-qubit error."""
    from panqec.config import CODES, DECODERS
    from panqec.error_models import PauliErrorModel
    col = hz.Collector(cfg)
    # noise settings: a generic channel at rate 0.1, the boundary rate 0 (a valid prior: "no error") and
    # one-sided noise (an exactly-zero component).  Rates with flip marginals above 1/2 are not included: there
    # the matching weights are negative and a non-trivial correction of the zero syndrome is the optimum.
    settings = [('generic', (0.2, 0.3, 0.5), 0.1), ('rate0', (0.2, 0.3, 0.5), 0.0), ('pureZ', (0.0, 0.0, 1.0), 0.1)]
    for dname, dcls in DECODERS.items():
        names = dcls.allowed_codes if dcls.allowed_codes is not None else list(common.CLASSES)
        for cname in names:
            # the generic setting on EVERY size of the quick table (n <= 100), the boundary settings on the first
            todo = [(settings[0], sz) for sz in common.sizes(cname, 'quick')] + \
                [(st, common.sizes(cname, 'quick')[0]) for st in settings[1:]]
            for (tag, direction, rate), size in todo:
                first = size == common.sizes(cname, 'quick')[0]
                oid = f'C05/constructible/{dname}/{cname}' + ('' if tag == 'generic' else f'/{tag}') + \
                    ('' if first else '/' + 'x'.join(map(str, size)))
                try:
                    code = CODES[cname](*size)
                    if code.n > 100:
                        continue
                    dec = dcls(code, PauliErrorModel(*direction), rate)
                    n = code.n
                    with np.errstate(all='ignore'):
                        c0 = np.asarray(dec.decode(np.zeros(code.n_stabilizers, dtype=np.uint8)))
                    ok = c0.shape == (2 * n,) and not c0.any()
                    detail = f'size {size}, direction {direction}, rate {rate}: zero syndrome -> zero correction of length {2 * n}'
                    if dname == 'MemoryBeliefPropagationDecoder':
                        ok = c0.shape == (2 * n,)
                        detail += ' (MBP: only length checked; known to fail its own trivial-syndrome test upstream)'
                except Exception as ex:
                    ok, detail = False, f'{type(ex).__name__}: {ex}'
                col.record(oid, 'unsat' if ok else 'sat', 0, False,
                           dict(decoder=dname, code=cname, direction=list(direction), rate=rate, size=list(size))
                           if not ok else None, detail)
    col.record('C05/stubs-are-shape-faithful', 'unsat' if validate_stub_shapes() else 'sat', 0, False,
               dict(stub_shapes=True), 'one real call each: Matching.decode, BpOsdDecoder.decode/osdw_decoding, '
               'Generator.choice(size=1) / random()')
    return col.result()


def worker(cfg, tier='quick'):
    return {'matching': w_matching, 'bposd': w_bposd, 'unionfind': w_unionfind, 'sweepmatch': w_sweepmatch, 'uf-real': w_uf_real, 'real-reuse': w_real_reuse,
            'real-dtype': w_real_dtype,
            'constructible': w_constructible}[cfg.split()[0]](cfg, tier)


def replay(path):
    with open(path) as f:
        d = json.load(f)
    w, oid, cfg = d['witness'], d['oid'], d['config']
    bad = False
    try:
        if cfg.startswith('constructible'):
            from panqec.config import CODES, DECODERS
            from panqec.error_models import PauliErrorModel
            if w.get('stub_shapes'):
                bad = not validate_stub_shapes()
            else:
                code = CODES[w['code']](*(w.get('size') or common.sizes(w['code'], 'quick')[0]))
                dec = DECODERS[w['decoder']](code, PauliErrorModel(*w.get('direction', (0.2, 0.3, 0.5))), w.get('rate', 0.1))
                with np.errstate(all='ignore'):
                    c0 = np.asarray(dec.decode(np.zeros(code.n_stabilizers, dtype=np.uint8)))
                bad = c0.shape != (2 * code.n,) or bool(c0.any())
        elif w.get('dtype'):
            import panqec.decoders as pd_
            from panqec.error_models import PauliErrorModel
            parts = cfg.split(' ')
            code = common.make_code(parts[2])
            dec = getattr(pd_, DECODER_CLASS[parts[1]])(code, PauliErrorModel(0.2, 0.3, 0.5), 0.1)
            if 'error' not in w:
                print('worker raised', w.get('exception'))
                res = worker(cfg)
                bad = any(o['oid'] == oid and o['verdict'] == 'sat' for o in res['obs'])
            else:
                e = np.array(w['error'], dtype=np.uint8)
                s = code.measure_syndrome(e).astype(w['dtype'])
                keep = s.copy()
                c = np.asarray(dec.decode(s))
                print('error', e.tolist(), 'syndrome', s.tolist(), 'correction', c.tolist())
                bad = c.shape != (2 * code.n,) or not np.isin(c, (0, 1)).all() or \
                    (parts[1] not in INCOMPLETE and bool(code.measure_syndrome((e + c.astype(np.uint8)) % 2).any())) or \
                    not (s == keep).all()
        elif w.get('reuse'):
            import panqec.decoders as pd_
            from panqec.error_models import PauliErrorModel
            parts = cfg.split(' ')
            Dec = getattr(pd_, {'bposd': 'BeliefPropagationOSDDecoder', 'matching': 'MatchingDecoder',
                                'unionfind': 'UnionFindDecoder', 'mbp': 'MemoryBeliefPropagationDecoder'}[parts[1]])
            code = common.make_code(parts[2])
            dec = Dec(code, PauliErrorModel(0.2, 0.3, 0.5), 0.1)
            e1, e2 = np.array(w['first'], dtype=np.uint8), np.array(w['error'], dtype=np.uint8)
            dec.decode(code.measure_syndrome(e1))
            c = np.asarray(dec.decode(code.measure_syndrome(e2))).astype(np.uint8)
            bad = bool(code.measure_syndrome((e2 + c) % 2).any()) or (not e2.any() and bool(c.any()))
            print('first', e1.tolist(), 'second', e2.tolist(), 'correction', c.tolist())
        elif 'error' in w and cfg.split()[0] in ('matching', 'bposd', 'unionfind', 'uf-real'):
            # run the REAL decoder (real PyMatching / ldpc / union-find) on the counterexample error
            from panqec.error_models import PauliErrorModel
            from panqec.decoders import MatchingDecoder, BeliefPropagationOSDDecoder, UnionFindDecoder
            code = common.make_code(cfg.split(' ')[1])
            e = np.array(w['error'], dtype=np.uint8)
            em = PauliErrorModel(0.2, 0.3, 0.5)
            kind = cfg.split()[0]
            if kind == 'matching' and w.get('then_zero'):
                dec = MatchingDecoder(code, em, 0.1)
                c1 = np.asarray(dec.decode(code.measure_syndrome(e)))
                keep = c1.copy()
                c2 = np.asarray(dec.decode(np.zeros(code.n_stabilizers, dtype=np.uint8)))
                print('first', keep.tolist(), 'then zero syndrome ->', c2.tolist(), 'first now', c1.tolist())
                bad = bool(c2.any()) or bool((keep != c1).any())
                print('REPLAY', 'reproduced' if bad else 'not-reproduced', oid, cfg)
                return 0
            if kind == 'matching':
                dec = MatchingDecoder(code, em, 0.1)
            elif kind == 'bposd':
                dec = BeliefPropagationOSDDecoder(code, em, 0.1, channel_update=cfg.endswith(' update'))
            else:
                dec = UnionFindDecoder(code, em, 0.1)
            s = code.measure_syndrome(e)
            # the engine stubs model buffers that may be stale from earlier calls: the counterexample is
            # replayed on a fresh decoder and after each single-qubit-error syndrome (and the zero syndrome)
            histories = [None, np.zeros(2 * code.n, dtype=np.uint8)] + \
                [np.eye(2 * code.n, dtype=np.uint8)[i] for i in range(2 * code.n)]
            for h in histories:
                if h is not None:
                    dec.decode(code.measure_syndrome(h))
                for target in ([e] if h is None else [e, np.zeros_like(e)]):
                    st = code.measure_syndrome(target)
                    c = np.asarray(dec.decode(st))
                    if c.shape != (2 * code.n,) or code.measure_syndrome((target + c.astype(np.uint8)) % 2).any() or \
                            (not st.any() and c.any()):
                        print('earlier call', None if h is None else h.tolist(), 'syndrome', st.tolist(),
                              'correction', c.tolist())
                        bad = True
                        break
                if bad:
                    break
        else:
            res = worker(cfg)
            bad = any(o['oid'] == oid and o['verdict'] == 'sat' for o in res['obs'])
    except Exception as ex:
        print('exception on replay:', type(ex).__name__, ex)
        bad = True
    print('REPLAY', 'reproduced' if bad else 'not-reproduced', oid, cfg)
    return 0


def configs(tier):
    out = ['constructible all']
    m2 = ['Toric2DCode(2,2)', 'Toric2DCode(2,3)', 'Planar2DCode(2,3)', 'RotatedPlanar2DCode(3,2)', 'RotatedPlanar2DCode(3,3)']
    if tier != 'quick':
        m2 += ['Toric2DCode(3,4)', 'Planar2DCode(4,3)', 'RotatedPlanar2DCode(4,3)', 'Toric2DCode(4,4)', 'Planar2DCode(4,4)']
    out += [f'matching {c}' for c in m2]
    # one code per ordering of the X- and Z-type checks in the stabilizer list (Z first: surface codes;
    # interleaved: colour codes; X first: rhombic codes), CSS and non-CSS
    bp = ['RotatedPlanar2DCode(2,2)', 'Toric2DCode(2,2)', 'RotatedPlanar2DCode(2,2)/XZZX/x', 'Toric2DCode(2,2)/XY',
          'RotatedPlanar3DCode(2,2,2)', 'Color666PlanarCode(2,2)', 'RhombicPlanarCode(2,2,2)', 'Color488Code(2,2)']
    if tier != 'quick':
        bp += ['Planar2DCode(2,3)', 'Toric3DCode(2,2,2)/XZZX/z', 'XCubeCode(2,2,2)', 'RhombicPlanarCode(2,2,2)/Checkerboard_XZZX',
               'RhombicToricCode(2,2,2)', 'HollowRhombicCode(2,2,3)', 'Color666ToricCode(2,2)',
               'HollowPlanar3DCode(2,2,2)', 'Planar2DCode(2,3)/XY', 'Color488Code(2,2)/XXZZ']
    out += [f'bposd {c} noupdate' for c in bp]
    out += ['bposd RotatedPlanar2DCode(2,2) update', 'bposd Planar2DCode(2,2) update']
    out += ['unionfind Toric2DCode(2,2)', 'unionfind Toric2DCode(2,3)'] + (['unionfind Toric2DCode(3,4)'] if tier != 'quick' else [])
    out += ['real-reuse bposd Toric2DCode(2,2)', 'real-reuse bposd RotatedPlanar2DCode(2,2)/XZZX/x', 'real-reuse matching Toric2DCode(2,2)',
            'real-reuse unionfind Toric2DCode(3,3)']
    out += ['uf-real Toric2DCode(2,2)', 'uf-real Toric2DCode(2,3)', 'uf-real Toric2DCode(3,3)'] + \
        (['uf-real Toric2DCode(3,4)', 'uf-real Toric2DCode(4,4)'] if tier != 'quick' else [])
    # every decoder, incl. the incomplete ones, on non-cubic lattices of the classes it declares: a binary vector of
    # length 2n, no exception (syndromes of all errors of weight <= 2)
    wm = 'wmax=1' if tier == 'quick' else 'wmax=2'
    out += [f'real-dtype xcube XCubeCode(2,2,2) uint8 {wm}', f'real-dtype xcube XCubeCode(3,2,2) uint8 {wm}',
            f'real-dtype xcube XCubeCode(2,3,2) uint8 {wm}', f'real-dtype xcube XCubeCode(2,2,3) uint8 {wm}',
            f'real-dtype sweepmatch Toric3DCode(2,3,2) uint8 {wm}', f'real-dtype sweepmatch Planar3DCode(3,2,2) uint8 {wm}',
            f'real-dtype rotatedsweepmatch RotatedPlanar3DCode(2,3,2) uint8 {wm}',
            f'real-dtype rotatedsweepmatch RotatedPlanar3DCode(3,2,3) uint8 {wm}', f'real-dtype mbp Toric2DCode(2,3) uint8 {wm}']
    out += ['real-dtype rotatedsweepmatch RotatedPlanar3DCode(2,3,2) float64 wmax=1', 'real-dtype sweepmatch Toric3DCode(2,3,2) float64 wmax=1',
            'real-dtype xcube XCubeCode(2,2,2) float64 wmax=1', 'real-dtype mbp Toric2DCode(2,3) bool wmax=1']
    if tier != 'quick':
        out += ['real-dtype xcube XCubeCode(4,3,2) uint8 wmax=1', 'real-dtype sweepmatch Toric3DCode(2,3,4) uint8 wmax=1',
                'real-dtype rotatedsweepmatch RotatedPlanar3DCode(4,3,2) uint8 wmax=1',
                'real-dtype mbp RotatedPlanar2DCode(3,4)/XZZX/x uint8 wmax=1']
    # other accepted array representations of the syndrome, real engines
    for dt in ('bool', 'int64', 'float64'):
        out += [f'real-dtype matching Toric2DCode(3,3) {dt}', f'real-dtype bposd Toric2DCode(2,3) {dt}',
                f'real-dtype matching Planar2DCode(3,3) {dt}', f'real-dtype unionfind Toric2DCode(3,3) {dt}']
    out += [f'real-dtype unionfind Toric2DCode(4,4) bool {l}' for l in (1, 2, 3)]
    if tier != 'quick':
        out += [f'real-dtype unionfind Toric2DCode(4,4) int64 {l}' for l in (1, 2, 3)]
        out += [f'real-dtype unionfind Toric2DCode(4,5) bool {l}' for l in (1, 2, 3)]
        # the matching decoder is defined for CSS codes only (it needs Hx / Hz): deformed codes go to BP-OSD
        out += [f'real-dtype matching {c} bool' for c in ('Toric2DCode(3,4)', 'RotatedPlanar2DCode(3,3)', 'Planar2DCode(3,4)')]
        out += [f'real-dtype bposd {c} bool' for c in ('Toric2DCode(3,4)', 'RotatedPlanar2DCode(3,3)/XZZX/x', 'Toric2DCode(3,3)/XY')]
    out += ['sweepmatch Toric3DCode(2,2,2)', 'sweepmatch Planar3DCode(2,2,2)', 'sweepmatch RotatedPlanar3DCode(2,2,2)',
            'sweepmatch RotatedToric3DCode(2,2,2)']
    return out


def main(argv=None):
    a = hz.std_args(argv)
    if a.replay:
        return replay(a.replay)
    t0 = time.time()
    cfgs = configs(a.tier)
    if a.only:
        cfgs = [c for c in cfgs if a.only in c]
    res = hz.run_configs('checks.c05', 'worker', cfgs, dict(tier=a.tier), jobs=a.jobs)
    return hz.finish(
        PID, a.tier, a.seed, res, t0,
        assumptions=['contract of the third-party engines: PyMatching / ldpc OSD / the union-find Support return a '
                     'solution c of H c = s for the matrix they were given whenever one exists (MatchStub / OsdStub); '
                     'PyMatching additionally returns a minimum-weight one (instantiated at the zero correction)',
                     'the claim is about panqec\'s wiring around the engines: which matrix, which syndrome half, which '
                     'half of the correction, which priors'],
        bounds=dict(symbolic='all 2n bits of the error behind the syndrome; per-qubit distributions / weights',
                    codes='2-D codes up to 4x4 (matching), n <= 10 incl. non-CSS deformed codes (BP-OSD)'),
        stubs=['pymatching.Matching -> MatchStub', 'ldpc.BpOsdDecoder -> OsdStub', 'uf_support.Support -> solution stub',
               'sub-decoders of the sweep-match wrappers -> arbitrary X-only / Z-only vectors'],
        outside=['internals of PyMatching, ldpc, uf_support (cluster growth / peeling), MBP message passing, the XCube '
                 'matching decoder: a change inside those is invisible to this check',
                 'whether the sweep automaton terminates (sweep-match is not a complete decoder)'])


if __name__ == '__main__':
    sys.exit(main())
