"""C15 — analysis aggregates are conserved however results are split.

Real functions executed symbolically (the real pandas pipeline, with symbolic cells): analysis.
read_entry (format, on the JSON-shaped data), Analysis.aggregate, calculate_total_error_rates,
calculate_word_error_rates, calculate_single_qubit_error_rates, the sector block of
calculate_sector_thresholds (count_fails, get_standard_error), get_word_error_rate,
get_single_qubit_error_rate.  Symbolic: the CONTENT of every trial (success, codespace, 2k
effective-error bits).  Enumerated: how the trials are split over entries / files, entry order, k."""
import itertools
import json
import sys
import time

import numpy as np
import pandas as pd
import z3

from symx import Engine, as_sa, install
from symx.core import z3_and, z3_or, bool_term, Bit, SymBool, term_of
from symx import harness as hz

PID = 'C15'


def mk_entry(T, k, rate, fname, L=2):
    return {'inputs': {'code': {'name': 'Toric2DCode', 'parameters': {'L_x': L, 'L_y': L, 'L_z': None},
                                'n': 2 * L * L, 'k': k, 'd': L},
                       'error_model': {'name': 'PauliErrorModel',
                                       'parameters': {'r_x': 1 / 3, 'r_y': 1 / 3, 'r_z': 1 / 3,
                                                      'deformation_name': None, 'deformation_kwargs': {}}},
                       'decoder': {'name': 'BeliefPropagationOSDDecoder', 'parameters': {}},
                       'error_rate': rate, 'method': {'name': 'direct', 'parameters': {}}},
            'results': {'n_runs': T, 'wall_time': 1.0, 'effective_error': [[0] * (2 * k)] * T,
                        'success': [True] * T, 'codespace': [True] * T}}


def worker(cfg, tier='quick'):
    """cfg = 'split k=<k> parts=<a+b+c> other=<m> order=<fwd|rev> files=<same|separate>'"""
    if cfg.startswith('files'):
        return w_files(cfg, tier)
    import panqec.analysis as an
    install(an)
    parts = dict(p.split('=') for p in cfg.split()[1:])
    k = int(parts['k'])
    comp = [int(x) for x in parts['parts'].split('+')]
    other = int(parts.get('other', 1))
    T = sum(comp)
    col = hz.Collector(cfg)
    A = an.Analysis
    col.encoded(an.read_entry, A.aggregate, A.calculate_total_error_rates, A.calculate_word_error_rates,
                A.calculate_single_qubit_error_rates, A.calculate_sector_thresholds, an.count_fails,
                an.get_standard_error, an.get_word_error_rate, an.get_single_qubit_error_rate)
    S = [z3.Bool(f's_{t}') for t in range(T + other)]
    C = [z3.Bool(f'c_{t}') for t in range(T + other)]
    X = [[z3.Bool(f'x_{t}_{j}') for j in range(2 * k)] for t in range(T + other)]
    eng = Engine(name=cfg, max_paths=5000, timeout_ms=120000)
    with eng:
        def fn():
            raw = []
            for i, n_i in enumerate(comp):
                raw.append(mk_entry(n_i, k, 0.1, f'f{i}.json'))
            raw.append(mk_entry(other, k, 0.2, 'g.json'))            # a second parameter point
            if parts.get('files', 'separate') == 'same':
                ents = an.read_entry(raw, results_file='/r/all.json')              # one merged list
            else:
                ents = []
                for i, r in enumerate(raw):
                    ents += an.read_entry(r, results_file=f'/r/f{i}.json')
            t = 0
            for e in ents:
                n_i = e['n_trials']
                e['success'] = as_sa([SymBool(S[t + i]) for i in range(n_i)])
                e['codespace'] = as_sa([SymBool(C[t + i]) for i in range(n_i)])
                e['effective_error'] = as_sa(np.array([[Bit(b) for b in X[t + i]] for i in range(n_i)], dtype=object))
                t += n_i
            if parts.get('order', 'fwd') == 'rev':
                ents = ents[::-1]
            a = A.__new__(A)
            a.verbose = False
            a.raw = pd.DataFrame(ents)
            a.raw['error_rate'] = a.raw['error_rate'].round(6)
            a.aggregate()
            a.calculate_total_error_rates()
            a.calculate_word_error_rates()
            a.calculate_single_qubit_error_rates()
            a.calculate_thresholds = lambda **kw: None       # only the sector counting block is in scope
            a.calculate_sector_thresholds()
            return a._results
        ps = eng.explore(fn)
    col.absorb(eng)

    def wit(m):
        g = lambda bs: [1 if z3.is_true(m.eval(b, model_completion=True)) else 0 for b in bs]
        return dict(success=g(S), codespace=g(C), effective=[g(r) for r in X], parts=comp, k=k, other=other,
                    files=parts.get('files', 'separate'), order=parts.get('order', 'fwd'))
    R = lambda x: term_of(x, 'real')
    b2i = lambda b: z3.If(b, 1, 0)
    bad = {n_: [] for n_ in ('pooled-counts', 'p_est-and-p_se', 'word-error-rate', 'single-qubit-estimates',
                             'single-qubit-standard-errors', 'sector-counts', 'sector-estimates')}
    for p in ps:
        if p.exc is not None:
            r, m, dt = col.solve(p.pc)
            col.record('C15/no-exception', r, dt, True, wit(m) if m else None, f'{type(p.exc).__name__}: {p.exc}')
            continue
        df = p.value
        rows = {float(r_['error_rate']): r_ for _, r_ in df.iterrows()}
        ok_rows = sorted(rows) == [0.1, 0.2] and len(df) == 2
        if not ok_rows:
            bad['pooled-counts'].append(z3_and(p.pc))
            continue
        for rate, trials in ((0.1, list(range(T))), (0.2, list(range(T, T + other)))):
            row = rows[rate]
            n = len(trials)
            nfail = z3.Sum([b2i(z3.Not(S[t])) for t in trials])
            ncs = z3.Sum([b2i(C[t]) for t in trials])
            bad['pooled-counts'].append(z3_and(p.pc + [z3.Or(term_of(row['n_trials'], 'int') != n,
                                                             term_of(row['n_fail'], 'int') != nfail,
                                                             term_of(row['k'], 'int') != k)]))
            pe, se = R(row['p_est']), R(row['p_se'])
            bad['p_est-and-p_se'].append(z3_and(p.pc + [z3.Or(pe * n != z3.ToReal(nfail),
                                                              se * se * (n + 1) != pe * (1 - pe), se < 0)]))
            pw, pws = R(row['p_word_est']), R(row['p_word_se'])
            wk = 1 - pw
            wkk = wk
            for _ in range(k - 1):
                wkk = wkk * wk
            # (1 - p_word)^k == 1 - p ;  p_word_se * k * (1 - p) == (1 - p_word) * p_se   (for p < 1)
            bad['word-error-rate'].append(z3_and(p.pc + [z3.Or(wkk != 1 - pe, wk < 0,
                                                               z3.And(pe < 1, pws * k * (1 - pe) != wk * se))]))
            est, unc = np.asarray(row['single_qubit_p_est']), np.asarray(row['single_qubit_p_se'])
            d_est, d_unc = [], []
            for i in range(k):
                for ip, pat in enumerate((None, (1, 0), (1, 1), (0, 1))):
                    if pat is None:
                        cnt = z3.Sum([b2i(z3.Or(X[t][i], X[t][k + i])) for t in trials])
                    else:
                        cnt = z3.Sum([b2i(z3.And(X[t][i] == bool(pat[0]), X[t][k + i] == bool(pat[1]))) for t in trials])
                    e_ = R(est[i, ip])
                    u_ = R(unc[i, ip])
                    d_est.append(e_ * n != z3.ToReal(cnt))
                    d_unc.append(z3.Or(u_ * u_ * (n + 1) != e_ * (1 - e_), u_ < 0))
            bad['single-qubit-estimates'].append(z3_and(p.pc + [z3_or(d_est)]))
            bad['single-qubit-standard-errors'].append(z3_and(p.pc + [z3_or(d_unc)]))
            dsc, dse = [], []
            for sector, off in (('X', 0), ('Z', k)):
                nt = term_of(row[f'n_trials_{sector}'], 'int')
                nf = term_of(row[f'n_fail_{sector}'], 'int')
                want_f = z3.Sum([b2i(z3.And(C[t], X[t][off + j])) for t in trials for j in range(k)])
                dsc.append(z3.Or(nt != k * ncs, nf != want_f))
                pes, ses = R(row[f'p_est_{sector}']), R(row[f'p_se_{sector}'])
                dse.append(z3.And(ncs > 0, z3.Or(pes * z3.ToReal(nt) != z3.ToReal(nf),
                                                 ses * ses * (z3.ToReal(nt) + 1) != pes * (1 - pes))))
            bad['sector-counts'].append(z3_and(p.pc + [z3_or(dsc)]))
            bad['sector-estimates'].append(z3_and(p.pc + [z3_or(dse)]))
    details = {
        'pooled-counts': 'n_trials and n_fail equal the pooled raw counts of the trial multiset, whatever the split',
        'p_est-and-p_se': 'p_est = n_fail/n_trials; p_se^2 (n+1) = p(1-p)',
        'word-error-rate': '(1-p_word)^k = 1-p and its standard error by the stated formula',
        'single-qubit-estimates': 'per logical qubit and Pauli type: fraction of trials with that effective Pauli',
        'single-qubit-standard-errors': 'each single-qubit estimate carries ITS OWN standard error sqrt(e(1-e)/(n+1))',
        'sector-counts': 'n_trials_X/Z = k * #in-codespace trials; n_fail_X/Z = flagged logical bits among them',
        'sector-estimates': 'sector estimates and standard errors follow their formulas',
    }
    for name, alts in bad.items():
        col.prove(f'C15/{name}', [], z3_or(alts), wit, details[name], timeout_ms=120000)
    return col.result()


FILE_KINDS = ['dir-json', 'dir-gz', 'zip', 'merged-json', 'dir-two-files', 'merged']


def write_layout(root, kinds, order, records):
    """Write the records (one list of trial records per path) in the chosen container kinds; returns paths."""
    import gzip
    import os
    import zipfile
    paths = []
    for i, (kind, recs) in enumerate(zip(kinds, records)):
        if kind == 'dir-json':
            d = os.path.join(root, f'p{i}')
            os.makedirs(d)
            json.dump(recs, open(os.path.join(d, 'results.json'), 'w'))
            paths.append(d)
        elif kind == 'dir-gz':
            d = os.path.join(root, f'p{i}')
            os.makedirs(d)
            with gzip.open(os.path.join(d, 'results.json.gz'), 'wb') as g:
                g.write(json.dumps(recs).encode())
            paths.append(d)
        elif kind == 'dir-two-files':
            d = os.path.join(root, f'p{i}', 'sub')
            os.makedirs(d)
            half = max(1, len(recs) // 2)
            json.dump(recs[:half], open(os.path.join(d, 'a.json'), 'w'))
            with gzip.open(os.path.join(d, 'b.json.gz'), 'wb') as g:
                g.write(json.dumps(recs[half:]).encode())
            paths.append(os.path.join(root, f'p{i}'))
        elif kind == 'merged':
            # the output of `panqec merge-results` over a single-record file (a top-level JSON object, as
            # DirectSimulation.get_results_to_save() gives) and a list-formatted file
            import contextlib
            import io
            import panqec.cli as cli
            d = os.path.join(root, f'src{i}')
            os.makedirs(d)
            f1, f2 = os.path.join(d, 'one.json'), os.path.join(d, 'rest.json.gz')
            json.dump(recs[0], open(f1, 'w'))
            with gzip.open(f2, 'wb') as g:
                g.write(json.dumps(recs[1:]).encode())
            out = os.path.join(root, f'p{i}.merged.json.gz')
            with contextlib.redirect_stdout(io.StringIO()):
                cli.merge_results.callback((f1, f2), out)
            paths.append(out)
        elif kind == 'zip':
            z = os.path.join(root, f'p{i}.zip')
            with zipfile.ZipFile(z, 'w') as zf:
                zf.writestr('inner/results.json', json.dumps(recs))
            paths.append(z)
        else:
            f = os.path.join(root, f'p{i}.json')
            json.dump(recs, open(f, 'w'))
            paths.append(f)
    return [paths[j] for j in order]


def w_files(cfg, tier):
    """File discovery and container formats (I/O): the layout (how many paths, which container kind each,
    in which order they are passed) is solver-chosen and REALISED; the trial contents are fixed; the real
    Analysis(paths) pipeline runs on real temporary files and is compared with the pooled raw counts."""
    import shutil
    import tempfile
    import panqec.analysis as an
    k = 1
    npaths = int(cfg.split('paths=')[1])
    col = hz.Collector(cfg)
    col.encoded(an.Analysis.find_files, an.Analysis.read_files, an.Analysis.__init__)
    rng = np.random.default_rng(7)
    sizes = [2, 3, 1][:npaths]
    # the third rate is the same number spelled with different last bits in different files (0.3 and
    # 0.1 + 0.2 = 0.30000000000000004, as result archives of repeated runs contain): one (code, noise,
    # decoder, error rate) group -- the pipeline identifies rates to six decimals
    # two lattice sizes whose decimal strings sort differently from their values (8 < 10, '10' < '8'): groups
    # are (code, noise, decoder, error rate) and every group's estimate must come from ITS OWN counts
    LS = (8, 10)
    records, raw = [], {(L_, r_): [0, 0] for L_ in LS for r_ in (0.1, 0.2, 0.3)}
    for i, T in enumerate(sizes):
        recs = []
        for L_ in LS:
            for rate in (0.1, 0.2, 0.3):
                spelled = rate if (rate != 0.3 or i % 2 == 0) else 0.1 + 0.2
                n_t = T + (rate == 0.2) + (L_ == 10)
                e = mk_entry(n_t, k, spelled, 'x', L=L_)
                succ = [bool(rng.integers(0, 2)) for _ in range(n_t)]
                e['results']['success'] = succ
                e['results']['codespace'] = [True] * n_t
                e['results']['effective_error'] = [[0, 0] if s_ else [1, 0] for s_ in succ]
                raw[(L_, rate)][0] += n_t
                raw[(L_, rate)][1] += n_t - sum(succ)
                recs.append(e)
        records.append(recs)
    eng = Engine(name=cfg, max_paths=4000)
    import itertools as it
    perms = list(it.permutations(range(npaths)))
    with eng:
        kinds_v = [eng.integer(f'kind{i}', 0, len(FILE_KINDS) - 1) for i in range(npaths)]
        perm_v = eng.integer('order', 0, len(perms) - 1)
        warm_v = eng.integer('another_analysis_first', 0, 1)

        def analyse(kinds, order, warm):
            """One real Analysis on a fresh temporary layout; warm=True: another Analysis object (other data,
            other directory) is created and evaluated first in the same process."""
            if warm:
                other = tempfile.mkdtemp(prefix='c15other_')
                try:
                    rec2 = [[mk_entry(4, k, 0.1, 'x'), mk_entry(2, k, 0.3, 'x')]]
                    p2 = write_layout(other, [FILE_KINDS[0]], (0,), rec2)
                    an.Analysis(p2[0], verbose=False).get_results()
                finally:
                    shutil.rmtree(other, ignore_errors=True)
            root = tempfile.mkdtemp(prefix='c15files_')
            try:
                paths = write_layout(root, kinds, order, records)
                a = an.Analysis(paths if len(paths) > 1 else paths[0], verbose=False)
                df = a.get_results()
                got = {}
                for _, r_ in df.iterrows():
                    key = (int(round((int(r_['n']) / 2) ** 0.5)), round(float(r_['error_rate']), 6))
                    if key in got:                      # two report rows for one rate: not pooled
                        got[('duplicate', len(got))] = (int(r_['n_trials']), int(r_['n_fail']), float(r_['p_est']))
                    else:
                        got[key] = (int(r_['n_trials']), int(r_['n_fail']), float(r_['p_est']))
            finally:
                shutil.rmtree(root, ignore_errors=True)
            return got

        def fn():
            kinds = [FILE_KINDS[int(v)] for v in kinds_v]
            order = perms[int(perm_v)]
            warm = bool(int(warm_v))
            got = hz.in_forked_child(lambda: analyse(kinds, order, warm))
            ok = all(rate in got and got[rate][0] == raw[rate][0] and got[rate][1] == raw[rate][1] and
                     abs(got[rate][2] - raw[rate][1] / raw[rate][0]) < 1e-12 for rate in raw) and len(got) == len(raw)
            return ok, dict(kinds=kinds, order=list(order), warm=warm, got={str(k_): v for k_, v in got.items()})
        ps = eng.explore(fn)
    col.absorb(eng)
    bad = []
    w = [None]
    for p in ps:
        if p.exc is not None:
            bad.append(z3_and(p.pc))
            if w[0] is None:
                w[0] = dict(layout='exception', error=f'{type(p.exc).__name__}: {p.exc}', npaths=npaths)
            continue
        ok, info = p.value
        bad.append(z3_and(p.pc + [z3.BoolVal(not ok)]))
        if not ok and w[0] is None:
            w[0] = dict(info, npaths=npaths, layout='files')
    col.prove('C15/files/pooled-counts-independent-of-container-layout-and-path-order', eng.base, z3_or(bad),
              lambda m: w[0], f'{len(ps)} realised layouts: {npaths} paths x container kinds {FILE_KINDS} x path orders x (fresh process | another Analysis evaluated first), one forked process each; '
              f'pooled raw counts {raw}')
    return col.result()


def replay(path):
    """Concrete trial contents through the real pipeline (real numpy arrays)."""
    with open(path) as f_:
        d_ = json.load(f_)
    if d_['config'].startswith('files'):
        res = w_files(d_['config'], 'quick')
        bad_ = any(o['oid'] == d_['oid'] and o['verdict'] == 'sat' for o in res['obs'])
        print('layout', d_['witness'])
        print('REPLAY', 'reproduced' if bad_ else 'not-reproduced', d_['oid'], d_['config'])
        return 0
    import panqec.analysis as an
    with open(path) as f:
        d = json.load(f)
    w, oid = d['witness'], d['oid']
    k, comp, other = w['k'], w['parts'], w['other']
    T = sum(comp)
    bad = False
    try:
        raw = []
        t = 0
        for i, n_i in enumerate(comp + [other]):
            e = mk_entry(n_i, k, 0.1 if i < len(comp) else 0.2, f'f{i}.json')
            e['results']['success'] = [bool(x) for x in w['success'][t:t + n_i]]
            e['results']['codespace'] = [bool(x) for x in w['codespace'][t:t + n_i]]
            e['results']['effective_error'] = [list(r) for r in w['effective'][t:t + n_i]]
            raw.append(e)
            t += n_i
        if w['files'] == 'same':
            ents = an.read_entry(raw, results_file='/r/all.json')
        else:
            ents = []
            for i, r in enumerate(raw):
                ents += an.read_entry(r, results_file=f'/r/f{i}.json')
        if w['order'] == 'rev':
            ents = ents[::-1]
        a = an.Analysis.__new__(an.Analysis)
        a.verbose = False
        a.raw = pd.DataFrame(ents)
        a.raw['error_rate'] = a.raw['error_rate'].round(6)
        a.aggregate()
        a.calculate_total_error_rates()
        a.calculate_word_error_rates()
        a.calculate_single_qubit_error_rates()
        a.calculate_thresholds = lambda **kw: None
        a.calculate_sector_thresholds()
        df = a._results
        for rate, trials in ((0.1, range(T)), (0.2, range(T, T + other))):
            row = df[df['error_rate'] == rate].iloc[0]
            n = len(trials)
            succ = [w['success'][t] for t in trials]
            cs = [w['codespace'][t] for t in trials]
            eff = np.array([w['effective'][t] for t in trials])
            nf = n - sum(succ)
            pe = nf / n
            se = np.sqrt(pe * (1 - pe) / (n + 1))
            close = lambda x, y: abs(float(x) - float(y)) <= 1e-9
            if 'pooled' in oid:
                bad |= int(row['n_trials']) != n or int(row['n_fail']) != nf
            elif 'p_est' in oid:
                bad |= not close(row['p_est'], pe) or not close(row['p_se'], se)
            elif 'word' in oid:
                bad |= not close(row['p_word_est'], 1 - (1 - pe) ** (1 / k))
            elif 'single-qubit' in oid:
                est, unc = np.asarray(row['single_qubit_p_est']), np.asarray(row['single_qubit_p_se'])
                for i in range(k):
                    q = np.stack([eff[:, i], eff[:, k + i]], axis=1)
                    for ip, pat in enumerate((None, (1, 0), (1, 1), (0, 1))):
                        e_ = 1 - (q == [0, 0]).all(axis=1).mean() if pat is None else (q == list(pat)).all(axis=1).mean()
                        u_ = np.sqrt(e_ * (1 - e_) / (n + 1))
                        if 'estimates' in oid and not close(est[i, ip], e_):
                            bad = True
                        if 'standard-errors' in oid and not close(unc[i, ip], u_):
                            bad = True
            elif 'sector' in oid:
                ncs = sum(cs)
                for sector, off in (('X', 0), ('Z', k)):
                    want = int(sum(eff[t_, off + j] for t_ in range(n) if cs[t_] for j in range(k)))
                    if int(row[f'n_trials_{sector}']) != k * ncs or int(row[f'n_fail_{sector}']) != want:
                        bad = True
    except Exception as ex:
        print('exception on replay:', type(ex).__name__, ex)
        bad = True
    print('REPLAY', 'reproduced' if bad else 'not-reproduced', oid, d['config'])
    return 0


def configs(tier):
    out = []
    if tier == 'quick':
        specs = [(1, '2', 'fwd', 'separate'), (1, '1+1', 'rev', 'separate'), (1, '2+1', 'fwd', 'same'),
                 (2, '1+1', 'fwd', 'separate'), (2, '2', 'rev', 'same'), (1, '1+1+1', 'fwd', 'separate')]
    else:
        specs = []
        for k in (1, 2):
            for T in (1, 2, 3, 4):
                for comp in ([c for c in itertools.product(range(1, T + 1), repeat=1) if sum(c) == T] +
                             [c for c in itertools.product(range(1, T + 1), repeat=2) if sum(c) == T] +
                             [c for c in itertools.product(range(1, T + 1), repeat=3) if sum(c) == T]):
                    if k == 2 and T > 3:
                        continue
                    for order in ('fwd', 'rev'):
                        for files in ('separate', 'same'):
                            if len(comp) == 1 and order == 'rev':
                                continue
                            specs.append((k, '+'.join(map(str, comp)), order, files))
    for k, comp, order, files in specs:
        out.append(f'split k={k} parts={comp} other=1 order={order} files={files}')
    out += ['files paths=1', 'files paths=2'] + (['files paths=3'] if tier != 'quick' else [])
    return out


def main(argv=None):
    a = hz.std_args(argv)
    if a.replay:
        return replay(a.replay)
    t0 = time.time()
    cfgs = configs(a.tier)
    if a.only:
        cfgs = [c for c in cfgs if a.only in c]
    res = hz.run_configs('checks.c15', 'worker', cfgs, dict(tier=a.tier), jobs=a.jobs)
    return hz.finish(
        PID, a.tier, a.seed, res, t0,
        assumptions=['floats are reals; sqrt(x) is a fresh s >= 0 with s^2 = x; x^(1/k) a fresh root',
                     'pandas groupby / concat / apply treat the symbolic arrays as opaque objects (the real pandas '
                     'code runs); numpy reductions on them go through the symx proxies',
                     'trial contents are injected after the real read_entry parsed the JSON-shaped records'],
        bounds=dict(trials='T <= 3 (quick) / <= 4 (thorough) pooled trials + 1 trial at a second parameter point',
                    k='1, 2', splits='all compositions into <= 3 entries, both entry orders, separate files / one merged list'),
        stubs=['Analysis.calculate_thresholds -> no-op (threshold fitting is C16, not applicable)'],
        outside=['file discovery and container formats are I/O: explored only as a REALISED finite list of layouts on '
                 'real temporary files (the solver enumerates it)', 'the merge-results CLI',
                 'threshold fits'])


if __name__ == '__main__':
    sys.exit(main())
