#!/bin/sh
# Build the tooling venv overlay for the checks: /venv's site-packages (panqec deps) + z3/cvc5 from the
# offline wheelhouse.  Idempotent.  Nothing is fetched from the network.
set -e
cd "$(dirname "$0")"
if [ ! -x .venv/bin/python ] || ! .venv/bin/python -c "import z3, numpy, scipy, panqec" >/dev/null 2>&1; then
  rm -rf .venv
  /venv/bin/python -m venv .venv
  SP=$(.venv/bin/python -c "import sysconfig; print(sysconfig.get_paths()['purelib'])")
  printf '/venv/lib/python3.12/site-packages\n/repo\n' > "$SP/verif_overlay.pth"
  PIP_NO_INDEX=1 .venv/bin/pip install -q --no-index --find-links /opt/veriftools/wheels z3-solver cvc5 jsonschema >/dev/null
fi
.venv/bin/python -c "import z3, cvc5, numpy, scipy, panqec; print('setup ok: z3', z3.get_version_string())"
